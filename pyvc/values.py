"""Symbolic values and container theory helpers."""
import itertools
import z3
from . import types as T

_counter = itertools.count()


class Unsupported(Exception):
    """construct outside the supported subset (checker limitation, never a violation)"""


class SymVal:
    __slots__ = ('ty', 'term', 'meta')

    def __init__(self, ty, term, meta=None):
        self.ty = ty
        self.term = term
        self.meta = meta    # python-level info: e.g. ('const', value), ('dtype', name)

    def __repr__(self):
        return f"<{T.show(self.ty)} {self.term}>"


def fresh_name(hint):
    return f"{hint}!{next(_counter)}"


def fresh(ty, hint='v'):
    return SymVal(ty, z3.Const(fresh_name(hint), T.sort_of(ty)))


_CANON = {}


def canon(ty, hint, *arg_terms):
    """the result of a *pure* operation as an application of a global uninterpreted function to
    its operands (instead of a fresh constant): equal operands give the same result by
    congruence.  The caller still states the defining axioms for this application."""
    key = (hint, T.sort_of(ty).name(), tuple(a.sort().name() for a in arg_terms))
    if key not in _CANON:
        _CANON[key] = z3.Function(f"{hint}!fn{len(_CANON)}", *([a.sort() for a in arg_terms] + [T.sort_of(ty)]))
    return SymVal(ty, _CANON[key](*arg_terms))


_SET_WIT = {}


def set_witness(ty, term):
    """some member of a non-empty set (global choice function per sort)"""
    s = T.sort_of(ty)
    if s.name() not in _SET_WIT:
        _SET_WIT[s.name()] = z3.Function(f"setwit!{len(_SET_WIT)}", s, T.sort_of(ty[1]))
    return _SET_WIT[s.name()](term)


def const_int(n):
    return SymVal(T.INT, z3.IntVal(int(n)), ('const', int(n)))


def const_real(x):
    return SymVal(T.REAL, z3.RealVal(repr(float(x)) if not isinstance(x, str) else x), ('const', x))


def const_bool(b):
    return SymVal(T.BOOL, z3.BoolVal(bool(b)), ('const', bool(b)))


NONEVAL = SymVal(T.NONE, T.none_value(), ('const', None))

# ---- string literals: distinct, ordered constants ---------------------------------------
_LITERALS = {}


def literal(s):
    if s not in _LITERALS:
        _LITERALS[s] = z3.Int(f"lit!{len(_LITERALS)}!{''.join(c if c.isalnum() else '_' for c in s)[:24]}")
    return SymVal(T.NAME, _LITERALS[s], ('const', s))


def literal_axioms():
    """pairwise order of the string literals seen so far, as CPython orders them; their lengths;
    facts about the f-string templates seen so far (see fstr_function)"""
    items = sorted(_LITERALS.items(), key=lambda kv: kv[0])
    out = []
    for (a, ta), (b, tb) in zip(items, items[1:]):
        out.append(ta < tb)
    if _STRLEN_USED[0]:
        for s, t in items:
            out.append(STRLEN(t) == len(s))
    out += fstr_axioms(items)
    return out


# ---- string length and f-strings (A-STR) ---------------------------------------------------
# len(s) of a string is an uninterpreted function of the abstract name with: the exact value for
# literals, additivity over `+`, and a lower bound for f-strings (constant segments + parts).
STRLEN = z3.Function('strlen', z3.IntSort(), z3.IntSort())
_STRLEN_USED = [False]
_FSTR = {}   # (template, part kinds) -> (function, constant segments, part kinds)


def strlen(term):
    _STRLEN_USED[0] = True
    return STRLEN(term)


def fstr_function(segments, kinds):
    """an f-string is a *function* of its formatted parts: one uninterpreted function per
    template (constant segments + format specs) and per part kinds ('name' | 'int').
    Nothing else is assumed about it except (fstr_axioms) that its value differs from every
    literal that cannot be produced by the template, and a lower bound on its length."""
    key = (tuple(segments), tuple(kinds))
    if key not in _FSTR:
        f = z3.Function(f"fstr!{len(_FSTR)}", *([z3.IntSort()] * len(kinds) + [z3.IntSort()]))
        _FSTR[key] = (f, tuple(segments), tuple(kinds))
    return _FSTR[key][0]


def fstr_axioms(literal_items):
    import re
    out = []
    for (segments, kinds), (f, _, _) in _FSTR.items():
        if not kinds:
            continue
        xs = [z3.Int(f"fs!{i}") for i in range(len(kinds))]
        app = f(*xs)
        consts = [s for s in segments if not s.startswith('\x00')]
        # segments alternate: constant text / '\x00spec' placeholders
        pat = ''.join('.*' if s.startswith('\x00') else re.escape(s) for s in segments)
        rx = re.compile(pat, re.S)
        diffs = [app != t for s, t in literal_items if rx.fullmatch(s) is None]
        if diffs:
            out.append(z3.ForAll(xs, z3.And(*diffs), patterns=[app]))
        if _STRLEN_USED[0]:
            lo = sum(len(s) for s in consts)
            parts = [STRLEN(x) if k == 'name' else z3.IntVal(1 if k == 'int' else 0)
                     for x, k in zip(xs, kinds)]
            out.append(z3.ForAll(xs, STRLEN(app) >= lo + z3.Sum(parts) if parts else STRLEN(app) >= lo,
                                 patterns=[app]))
    if _STRLEN_USED[0]:
        x = z3.Int('sl!x')
        out.append(z3.ForAll([x], STRLEN(x) >= 0, patterns=[STRLEN(x)]))
    return out


# ---- wf facts for fresh values -----------------------------------------------------------
def wf(v, depth=0):
    """facts true of every Python value of the type (lengths and cardinalities are >= 0).
    For nested containers the fact is stated for all indices (a fresh constant can always be
    chosen with well-formed junk outside its range), one level deep."""
    ty, t = v.ty, v.term
    k = ty[0]
    out = []
    if k in ('list', 'arr'):
        out.append(T.acc(ty, 'len')(t) >= 0)
        if depth < 2 and ty[1][0] in ('list', 'arr', 'dict', 'set', 'arr2', 'tuple', 'rec', 'opt'):
            i = z3.Int(fresh_name('wfi'))
            inner = wf(SymVal(ty[1], T.acc(ty, 'at')(t)[i]), depth + 1)
            if inner:
                out.append(z3.ForAll([i], z3.And(*inner)))
    elif k == 'arr2':
        out.append(T.acc(ty, 'n0')(t) >= 0)
        out.append(T.acc(ty, 'n1')(t) >= 0)
    elif k == 'dict':
        out.append(T.acc(ty, 'card')(t) >= 0)
        kk = z3.Const(fresh_name('wfk'), T.sort_of(ty[1]))
        dom = T.acc(ty, 'dom')(t)
        out.append(z3.ForAll([kk], z3.Implies(dom[kk], T.acc(ty, 'card')(t) >= 1)))
        if depth < 2 and ty[2][0] in ('list', 'arr', 'dict', 'set', 'arr2', 'tuple', 'rec', 'opt'):
            inner = wf(SymVal(ty[2], T.acc(ty, 'val')(t)[kk]), depth + 1)
            if inner:
                out.append(z3.ForAll([kk], z3.And(*inner)))
    elif k == 'set':
        out.append(T.acc(ty, 'card')(t) >= 0)
        kk = z3.Const(fresh_name('wfk'), T.sort_of(ty[1]))
        out.append(z3.ForAll([kk], z3.Implies(T.acc(ty, 'has')(t)[kk], T.acc(ty, 'card')(t) >= 1)))
        # ... and a set with a positive cardinality has a member
        out.append(z3.Implies(T.acc(ty, 'card')(t) >= 1, T.acc(ty, 'has')(t)[set_witness(ty, t)]))
    elif k == 'tuple':
        for i, et in enumerate(ty[1]):
            out += wf(SymVal(et, T.acc(ty, f'f{i}')(t)), depth + 1)
    elif k == 'rec':
        # a record is a plain product: it does not count towards the nesting depth (only
        # quantifier-introducing levels do), so Rec -> Dict -> Dict -> List still gets len >= 0
        for f, ft in T.RECORDS[ty[1]].items():
            out += wf(SymVal(ft, T.acc(ty, f)(t)), depth)
    elif k == 'opt':
        inner = wf(SymVal(ty[1], T.acc(ty, 'val')(t)), depth + 1)
        if inner:
            out.append(z3.Implies(z3.Not(T.opt_is_none(ty, t)), z3.And(*inner)))
    return out


# ---- sequences ---------------------------------------------------------------------------
def seq_len(v):
    return T.acc(v.ty, 'len')(v.term)


def seq_at(v, i):
    return T.acc(v.ty, 'at')(v.term)[i]


def mk_seq(ty, n, arr):
    return SymVal(ty, T.ctor(ty)(n, arr))


def empty_seq(ty):
    es = T.sort_of(ty[1])
    return mk_seq(ty, z3.IntVal(0), z3.K(z3.IntSort(), default_of(ty[1])))


def default_of(ty):
    """some value of the sort (used for junk outside ranges)"""
    k = ty[0]
    if k in ('int', 'name'):
        return z3.IntVal(0)
    if k == 'real':
        return z3.RealVal(0)
    if k == 'bool':
        return z3.BoolVal(False)
    if k == 'none':
        return T.none_value()
    if k == 'opt':
        return T.opt_none(ty)
    if k in ('list', 'arr'):
        return T.ctor(ty)(z3.IntVal(0), z3.K(z3.IntSort(), default_of(ty[1])))
    if k == 'set':
        return T.ctor(ty)(z3.K(T.sort_of(ty[1]), z3.BoolVal(False)), z3.IntVal(0))
    if k == 'dict':
        return T.ctor(ty)(z3.K(T.sort_of(ty[1]), z3.BoolVal(False)),
                          z3.K(T.sort_of(ty[1]), default_of(ty[2])), z3.IntVal(0))
    return z3.Const(fresh_name('dflt'), T.sort_of(ty))


def seq_append(v, x):
    n = seq_len(v)
    return mk_seq(v.ty, n + 1, z3.Store(T.acc(v.ty, 'at')(v.term), n, x))


def seq_append_ax(state, v, x, hint='app'):
    """append as a fresh sequence with trigger-friendly axioms (the ground term r[n] exists,
    so existential goals about membership find their witness by E-matching)"""
    n = seq_len(v)
    r = fresh(v.ty, hint)
    j = z3.Int(fresh_name('aj'))
    body = z3.Implies(z3.And(0 <= j, j < n), seq_at(r, j) == seq_at(v, j))
    try:
        q = z3.ForAll([j], body, patterns=[seq_at(r, j), seq_at(v, j)])
    except z3.Z3Exception:
        # the receiver term is not a legal trigger (e.g. it contains an ite: xs[i].append(..)
        # with a possibly negative i): trigger on the new sequence only
        q = z3.ForAll([j], body, patterns=[seq_at(r, j)])
    # the array-theory form of the same fact (r is fresh, so fixing its junk beyond the range is
    # consistent): lets the solver split on `j == n` by read-over-write instead of by triggers
    at = T.acc(v.ty, 'at')
    state.assume(seq_len(r) == n + 1, seq_at(r, n) == x, q, at(r.term) == z3.Store(at(v.term), n, x))
    return r


def seq_store(v, i, x):
    return mk_seq(v.ty, seq_len(v), z3.Store(T.acc(v.ty, 'at')(v.term), i, x))


# ---- dict / set ---------------------------------------------------------------------------
def dict_dom(v):
    return T.acc(v.ty, 'dom')(v.term)


def dict_val(v):
    return T.acc(v.ty, 'val')(v.term)


def dict_card(v):
    return T.acc(v.ty, 'card')(v.term)


def mk_dict(ty, dom, val, card):
    return SymVal(ty, T.ctor(ty)(dom, val, card))


def empty_dict(ty):
    return SymVal(ty, default_of(ty))


def dict_store(v, k, x):
    dom, val, card = dict_dom(v), dict_val(v), dict_card(v)
    return mk_dict(v.ty, z3.Store(dom, k, z3.BoolVal(True)), z3.Store(val, k, x),
                   z3.If(dom[k], card, card + 1))


def dict_remove(v, k):
    dom, val, card = dict_dom(v), dict_val(v), dict_card(v)
    return mk_dict(v.ty, z3.Store(dom, k, z3.BoolVal(False)), val,
                   z3.If(dom[k], card - 1, card))


def set_has(v):
    return T.acc(v.ty, 'has')(v.term)


def set_card(v):
    return T.acc(v.ty, 'card')(v.term)


def mk_set(ty, has, card):
    return SymVal(ty, T.ctor(ty)(has, card))


def empty_set(ty):
    return SymVal(ty, default_of(ty))


def set_add(v, k):
    has, card = set_has(v), set_card(v)
    return mk_set(v.ty, z3.Store(has, k, z3.BoolVal(True)), z3.If(has[k], card, card + 1))


def set_remove(v, k):
    has, card = set_has(v), set_card(v)
    return mk_set(v.ty, z3.Store(has, k, z3.BoolVal(False)), z3.If(has[k], card - 1, card))


def membership_array(v):
    """K -> Bool array of a dict or set"""
    if v.ty[0] == 'dict':
        return dict_dom(v)
    if v.ty[0] == 'set':
        return set_has(v)
    raise Unsupported(f"membership array of {T.show(v.ty)}")


def card_of(v):
    return dict_card(v) if v.ty[0] == 'dict' else set_card(v)
