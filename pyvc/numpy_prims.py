"""Trusted axioms for numpy primitives (DESIGN.md appendix B).  1-D arrays are sequences.

Every axiom here has an executable twin in pyvc/axiom_audit.py that is run against the real
library (guard G-A).
"""
import ast
import z3

from . import types as T
from .values import (SymVal, Unsupported, fresh, fresh_name, const_int, const_real, const_bool,
                     NONEVAL, literal, wf, seq_len, seq_at, mk_seq, empty_seq, seq_append,
                     seq_store, default_of)
from .engine import is_num, to_real, to_int, truth, join_types, coerce, values_equal
from .symexec import select, read_ref, write_ref

QUALIFIED = {}


def q(*names):
    def deco(f):
        for n in names:
            QUALIFIED[n] = f
        return f
    return deco


def _kw(node, name, default=None):
    for k in node.keywords:
        if k.arg == name:
            return k.value
    return default


def elem_arith(op, x, y, real):
    if isinstance(op, ast.Add):
        return x + y
    if isinstance(op, ast.Sub):
        return x - y
    if isinstance(op, ast.Mult):
        return x * y
    if isinstance(op, ast.Div):
        return x / y
    raise Unsupported(f"array operator {type(op).__name__}")


def arr2_binop(ev, state, op, a, b, node):
    """elementwise arithmetic of two 2-D arrays of the same shape, or of a 2-D array and a scalar
    (broadcasting of differing shapes is not modelled: same shape is an obligation)"""
    if any(v.ty[0] == 'arr' for v in (a, b)):
        raise Unsupported("2-D with 1-D array arithmetic (broadcasting)")
    mats = [v for v in (a, b) if v.ty[0] == 'arr2']
    ety = None
    for v in (a, b):
        t = v.ty[1] if v.ty[0] == 'arr2' else v.ty
        ety = t if ety is None else join_types(ety, t)
    if ety is None or ety not in (T.INT, T.REAL):
        raise Unsupported("array arithmetic element type")
    if isinstance(op, ast.Div):
        ety = T.REAL
        if b.ty[0] == 'arr2':
            raise Unsupported("division by an array")
        ev.ctx.oblige(state, to_real(b) != 0, 'ZeroDivisionError', node, 'divisor non-zero')
    n0, n1 = m_n0(mats[0]), m_n1(mats[0])
    if len(mats) == 2:
        ev.ctx.oblige(state, z3.And(m_n0(a) == m_n0(b), m_n1(a) == m_n1(b)), 'ValueError', node,
                      'operands have the same shape (no broadcasting of 2-D arrays)')
    r = fresh(T.TArr2(ety), 'matop')
    i, j = z3.Int(fresh_name('ai')), z3.Int(fresh_name('aj'))

    def el(v):
        e = SymVal(v.ty[1], m_at(v, i, j)) if v.ty[0] == 'arr2' else v
        return to_real(e) if ety == T.REAL else to_int(e)
    state.assume(m_n0(r) == n0, m_n1(r) == n1,
                 z3.ForAll([i, j], z3.Implies(z3.And(0 <= i, i < n0, 0 <= j, j < n1),
                                              m_at(r, i, j) == elem_arith(op, el(a), el(b), ety == T.REAL)),
                           patterns=[m_at(r, i, j)] + [m_at(v, i, j) for v in mats]))
    return r


def arr_binop(ev, state, op, a, b, node):
    if a.ty[0] == 'arr2' or b.ty[0] == 'arr2':
        return arr2_binop(ev, state, op, a, b, node)
    arrs = [v for v in (a, b) if v.ty[0] == 'arr']
    ety = None
    for v in (a, b):
        t = v.ty[1] if v.ty[0] == 'arr' else v.ty
        ety = t if ety is None else join_types(ety, t)
    if ety is None or ety not in (T.INT, T.REAL):
        raise Unsupported("array arithmetic element type")
    if isinstance(op, ast.Div):
        ety = T.REAL
    n = seq_len(arrs[0])
    if len(arrs) == 2:
        ev.ctx.oblige(state, seq_len(a) == seq_len(b), 'ValueError', node,
                      'operands have the same length (no broadcasting of 1-D arrays)')
    r = fresh(T.TArr(ety), 'arrop')
    i = z3.Int(fresh_name('ai'))

    def el(v):
        if v.ty[0] == 'arr':
            e = SymVal(v.ty[1], seq_at(v, i))
        else:
            e = v
        return to_real(e) if ety == T.REAL else to_int(e)
    if isinstance(op, ast.Div):
        if b.ty[0] == 'arr':
            raise Unsupported("division by an array")
        ev.ctx.oblige(state, to_real(b) != 0, 'ZeroDivisionError', node, 'divisor non-zero')
    state.assume(seq_len(r) == n,
                 z3.ForAll([i], z3.Implies(z3.And(0 <= i, i < n),
                                           seq_at(r, i) == elem_arith(op, el(a), el(b), ety == T.REAL))))
    return r


def arr_compare(ev, state, op, a, b, node):
    if a.ty[0] == 'arr2' or b.ty[0] == 'arr2':
        raise Unsupported("2-D array comparison")
    arrs = [v for v in (a, b) if v.ty[0] == 'arr']
    n = seq_len(arrs[0])
    if len(arrs) == 2:
        ev.ctx.oblige(state, seq_len(a) == seq_len(b), 'ValueError', node, 'same length')
    r = fresh(T.TArr(T.BOOL), 'arrcmp')
    i = z3.Int(fresh_name('ci'))

    def el(v):
        return SymVal(v.ty[1], seq_at(v, i)) if v.ty[0] == 'arr' else v
    c = ev.compare(state, op, el(a), el(b), node)
    state.assume(seq_len(r) == n,
                 z3.ForAll([i], z3.Implies(z3.And(0 <= i, i < n), seq_at(r, i) == c)))
    return r


def fancy_index(ev, state, base, idx, node):
    """a[idx] for an index array (ints) or mask (bools)"""
    n = seq_len(base)
    if idx.ty[1] == T.BOOL:
        return mask_select(ev, state, base, idx, node)
    m = seq_len(idx)
    j = z3.Int(fresh_name('fj'))
    ev.ctx.oblige(state, z3.ForAll([j], z3.Implies(z3.And(0 <= j, j < m),
                                                   z3.And(0 <= seq_at(idx, j), seq_at(idx, j) < n))),
                  'IndexError', node, 'index array within range (negative indices not modelled)')
    r = fresh(T.TArr(base.ty[1]), 'fancy')
    state.assume(seq_len(r) == m,
                 z3.ForAll([j], z3.Implies(z3.And(0 <= j, j < m),
                                           seq_at(r, j) == seq_at(base, seq_at(idx, j)))))
    return r


def mask_select(ev, state, base, mask, node):
    n = seq_len(base)
    ev.ctx.oblige(state, seq_len(mask) == n, 'IndexError', node, 'mask has the length of the array')
    r = fresh(T.TArr(base.ty[1]), 'masked')
    src = z3.Function(fresh_name('msrc'), z3.IntSort(), z3.IntSort())
    dst = z3.Function(fresh_name('mdst'), z3.IntSort(), z3.IntSort())
    i, j, j2 = z3.Int(fresh_name('mi')), z3.Int(fresh_name('mj')), z3.Int(fresh_name('mk'))
    m = seq_len(r)
    state.assume(
        0 <= m, m <= n,
        z3.ForAll([j], z3.Implies(z3.And(0 <= j, j < m),
                                  z3.And(0 <= src(j), src(j) < n, seq_at(mask, src(j)),
                                         dst(src(j)) == j, seq_at(r, j) == seq_at(base, src(j))))),
        z3.ForAll([j, j2], z3.Implies(z3.And(0 <= j, j < j2, j2 < m), src(j) < src(j2))),
        z3.ForAll([i], z3.Implies(z3.And(0 <= i, i < n, seq_at(mask, i)),
                                  z3.And(0 <= dst(i), dst(i) < m, src(dst(i)) == i))))
    return r


def attribute(ev, state, base, attr, node):
    k = base.ty[0]
    if k == 'arr':
        if attr == 'shape':
            ty = T.TTuple([T.INT])
            return SymVal(ty, T.ctor(ty)(seq_len(base)))
        if attr == 'size':
            return SymVal(T.INT, seq_len(base))
        if attr == 'dtype':
            return fresh(T.OPAQUE, 'dtype')
    if k == 'arr2':
        if attr == 'shape':
            ty = T.TTuple([T.INT, T.INT])
            return SymVal(ty, T.ctor(ty)(T.acc(base.ty, 'n0')(base.term), T.acc(base.ty, 'n1')(base.term)))
        if attr == 'dtype':
            return fresh(T.OPAQUE, 'dtype')
    if k == 'tuple' and base.meta == ('iinfo',):
        return select(base, ('fld', {'min': 0, 'max': 1, 'bits': 2}[attr]))
    if k == 'tuple' and base.meta == ('slice',):
        return select(base, ('fld', {'start': 0, 'stop': 1}[attr]))
    h = EXTRA_ATTRS.get((k, attr))
    if h is not None:
        ev.ctx.trusted_used.add(f'attr:{k}.{attr}')
        return h(ev, state, base, node)
    return None


EXTRA_ATTRS = {}     # (type kind, attribute) -> handler(ev, state, base, node): extension attributes
                     # of array-like objects (e.g. h5py Dataset.chunks), registered by pyvc/ext/*


def reduce_minmax2(ev, state, v, which, node):
    """m.min() / m.max() of a 2-D array: a bound of every element that is attained"""
    if v.ty[1] not in (T.INT, T.REAL):
        raise Unsupported(f"{which} of {T.show(v.ty)}")
    n0, n1 = m_n0(v), m_n1(v)
    ev.ctx.oblige(state, z3.And(n0 > 0, n1 > 0), 'ValueError', node,
                  f'{which}() of a non-empty 2-D array')
    r = fresh(v.ty[1], which)
    i, j = z3.Int(fresh_name('mi')), z3.Int(fresh_name('mj'))
    wi, wj = z3.Int(fresh_name('argm_i')), z3.Int(fresh_name('argm_j'))
    cmp = (lambda a, b: a <= b) if which == 'min' else (lambda a, b: a >= b)
    state.assume(0 <= wi, wi < n0, 0 <= wj, wj < n1, m_at(v, wi, wj) == r.term,
                 z3.ForAll([i, j], z3.Implies(z3.And(0 <= i, i < n0, 0 <= j, j < n1),
                                              cmp(r.term, m_at(v, i, j)))))
    return r


def reduce_minmax(ev, state, v, which, node):
    if v.ty[0] not in ('arr', 'list') or v.ty[1] not in (T.INT, T.REAL, T.NAME):
        raise Unsupported(f"{which} of {T.show(v.ty)}")
    n = seq_len(v)
    ev.ctx.oblige(state, n > 0, 'ValueError', node, f'{which}() of a non-empty sequence')
    r = fresh(v.ty[1], which)
    i = z3.Int(fresh_name('mi'))
    w = z3.Int(fresh_name('argm'))
    cmp = (lambda a, b: a <= b) if which == 'min' else (lambda a, b: a >= b)
    state.assume(0 <= w, w < n, seq_at(v, w) == r.term,
                 z3.ForAll([i], z3.Implies(z3.And(0 <= i, i < n), cmp(r.term, seq_at(v, i)))))
    return r


def np_round(ev, state, node):
    v = ev.eval(state, node.args[0])
    if v.ty == T.INT:
        return v
    if v.ty == T.REAL:
        # round half to even; the result is kept as a Real that is integral
        x = v.term
        from .values import canon
        r = canon(T.INT, 'round_half_even', x).term      # rounding is a function of its operand
        state.assume(z3.ToReal(r) - x <= z3.RealVal('1/2'), x - z3.ToReal(r) <= z3.RealVal('1/2'),
                     z3.Implies(z3.Or(z3.ToReal(r) - x == z3.RealVal('1/2'),
                                      x - z3.ToReal(r) == z3.RealVal('1/2')), r % 2 == 0))
        return SymVal(T.REAL, z3.ToReal(r), ('integral', r))
    raise Unsupported(f"round of {T.show(v.ty)}")


q('numpy.round')(np_round)


@q('numpy.iinfo')
def np_iinfo(ev, state, node):
    from .prims import INT_INFO
    v = ev.eval(state, node.args[0])
    if v.meta and v.meta[0] == 'dtype' and v.meta[1] in INT_INFO:
        lo, hi = INT_INFO[v.meta[1]]
        bits = {2**8 - 1: 8, 2**7 - 1: 8, 2**16 - 1: 16, 2**15 - 1: 16, 2**32 - 1: 32,
                2**31 - 1: 32, 2**64 - 1: 64, 2**63 - 1: 64}[hi]
        ty = T.TTuple([T.INT, T.INT, T.INT])
        return SymVal(ty, T.ctor(ty)(z3.IntVal(lo), z3.IntVal(hi), z3.IntVal(bits)), ('iinfo',))
    raise Unsupported("np.iinfo of a symbolic dtype")


def _dtype_elem(ev, state, node, default=T.REAL):
    d = _kw(node, 'dtype')
    if d is None:
        return default
    if isinstance(d, ast.Name) and d.id in ('int', 'bool', 'float'):
        return {'int': T.INT, 'bool': T.BOOL, 'float': T.REAL}[d.id]
    try:
        v = ev.eval(state, d)
    except Unsupported:
        return None
    if v.meta and v.meta[0] == 'dtype':
        n = v.meta[1]
        if n.startswith('float'):
            return T.REAL
        if n == 'bool':
            return T.BOOL
        return T.INT
    return None


@q('numpy.zeros', 'numpy.ones')
def np_zeros(ev, state, node):
    fill = 0 if ev.qualified(node.func).endswith('zeros') else 1
    shape = ev.eval(state, node.args[0] if node.args else _kw(node, 'shape'))
    ety = _dtype_elem(ev, state, node)
    if ety is None:
        ety = ev.ctx.hint_type('__zeros_elem__') or T.REAL
    fv = {T.INT: z3.IntVal(fill), T.REAL: z3.RealVal(fill), T.BOOL: z3.BoolVal(bool(fill))}[ety]
    if shape.ty == T.INT:
        n = shape.term
    elif shape.ty[0] == 'tuple' and len(shape.ty[1]) == 1:
        n = select(shape, ('fld', 0)).term
    elif shape.ty[0] == 'tuple' and len(shape.ty[1]) == 2:
        ty = T.TArr2(ety)
        if shape.ty[1][0] != T.INT or shape.ty[1][1] != T.INT:
            raise Unsupported("np.zeros shape with a non-integer (abstracted) extent")
        n0, n1 = select(shape, ('fld', 0)).term, select(shape, ('fld', 1)).term
        ev.ctx.oblige(state, z3.And(n0 >= 0, n1 >= 0), 'ValueError', node, 'non-negative shape')
        return SymVal(ty, T.ctor(ty)(n0, n1, z3.K(z3.IntSort(), z3.K(z3.IntSort(), fv))
                                     if False else _const2(ety, fv)))
    else:
        raise Unsupported("shape of np.zeros")
    ev.ctx.oblige(state, n >= 0, 'ValueError', node, 'non-negative length')
    return mk_seq(T.TArr(ety), n, z3.K(z3.IntSort(), fv))


def _const2(ety, fv):
    i, j = z3.Int('c2i'), z3.Int('c2j')
    return z3.Lambda([i, j], fv)


@q('numpy.array')
def np_array(ev, state, node):
    v = ev.eval(state, node.args[0])
    if v.ty[0] in ('list', 'arr'):
        ety = v.ty[1]
        d = _dtype_elem(ev, state, node, default=ety)
        if d is not None and d != ety and v.meta != ('empty',):
            if d == T.REAL and ety == T.INT:
                r = fresh(T.TArr(T.REAL), 'asreal')
                i = z3.Int(fresh_name('i'))
                state.assume(seq_len(r) == seq_len(v),
                             z3.ForAll([i], z3.Implies(z3.And(0 <= i, i < seq_len(v)),
                                                       seq_at(r, i) == z3.ToReal(seq_at(v, i)))))
                return r
            raise Unsupported("np.array with converting dtype")
        if v.meta == ('empty',) and d is not None:
            return empty_seq(T.TArr(d))
        return SymVal(T.TArr(ety), v.term)
    raise Unsupported(f"np.array of {T.show(v.ty)}")


@q('numpy.arange')
def np_arange(ev, state, node):
    args = [ev.eval(state, a) for a in node.args]
    if len(args) == 1:
        lo, hi = z3.IntVal(0), to_int(args[0])
    elif len(args) == 2:
        lo, hi = to_int(args[0]), to_int(args[1])
    else:
        raise Unsupported("arange with step")
    r = fresh(T.TArr(T.INT), 'arange')
    i = z3.Int(fresh_name('ri'))
    n = z3.If(hi > lo, hi - lo, 0)
    state.assume(seq_len(r) == n,
                 z3.ForAll([i], z3.Implies(z3.And(0 <= i, i < n), seq_at(r, i) == lo + i)))
    return r


@q('numpy.cumsum')
def np_cumsum(ev, state, node):
    v = ev.eval(state, node.args[0])
    if v.ty[0] not in ('arr', 'list') or v.ty[1] not in (T.INT, T.REAL):
        raise Unsupported("cumsum operand")
    n = seq_len(v)
    r = fresh(T.TArr(v.ty[1]), 'cumsum')
    i = z3.Int(fresh_name('ci'))
    state.assume(seq_len(r) == n,
                 z3.Implies(n > 0, seq_at(r, 0) == seq_at(v, 0)),
                 z3.ForAll([i], z3.Implies(z3.And(1 <= i, i < n),
                                           seq_at(r, i) == seq_at(r, i - 1) + seq_at(v, i))))
    return r


@q('numpy.concatenate')
def np_concatenate(ev, state, node):
    a = node.args[0]
    if isinstance(a, (ast.List, ast.Tuple)):
        parts = [ev.eval(state, e) for e in a.elts]
        if not all(p.ty[0] in ('arr', 'list') for p in parts):
            raise Unsupported("concatenate parts")
        out = SymVal(T.TList(parts[0].ty[1]), parts[0].term)
        for p in parts[1:]:
            out = ev.concat(state, out, SymVal(T.TList(p.ty[1]), p.term))
        return SymVal(T.TArr(out.ty[1]), out.term)
    raise Unsupported("concatenate of a computed list")


@q('numpy.logical_and', 'numpy.logical_or')
def np_logical(ev, state, node):
    a, b = [ev.eval(state, x) for x in node.args]
    if a.ty != T.TArr(T.BOOL) or b.ty != T.TArr(T.BOOL):
        raise Unsupported("logical op operands")
    is_and = ev.qualified(node.func).endswith('and')
    ev.ctx.oblige(state, seq_len(a) == seq_len(b), 'ValueError', node, 'same length')
    r = fresh(T.TArr(T.BOOL), 'logic')
    i = z3.Int(fresh_name('li'))
    x, y = seq_at(a, i), seq_at(b, i)
    state.assume(seq_len(r) == seq_len(a),
                 z3.ForAll([i], z3.Implies(z3.And(0 <= i, i < seq_len(a)),
                                           seq_at(r, i) == (z3.And(x, y) if is_and else z3.Or(x, y)))))
    return r


@q('numpy.logical_not')
def np_logical_not(ev, state, node):
    a = ev.eval(state, node.args[0])
    if a.ty != T.TArr(T.BOOL):
        raise Unsupported("logical_not operand")
    r = fresh(T.TArr(T.BOOL), 'lnot')
    i = z3.Int(fresh_name('li'))
    state.assume(seq_len(r) == seq_len(a),
                 z3.ForAll([i], z3.Implies(z3.And(0 <= i, i < seq_len(a)),
                                           seq_at(r, i) == z3.Not(seq_at(a, i)))))
    return r


@q('numpy.argsort')
def np_argsort(ev, state, node):
    v = ev.eval(state, node.args[0])
    if v.ty[0] not in ('arr', 'list') or v.ty[1] not in (T.INT, T.REAL, T.NAME):
        raise Unsupported("argsort operand")
    n = seq_len(v)
    r = fresh(T.TArr(T.INT), 'argsort')
    inv = z3.Function(fresh_name('argsort_inv'), z3.IntSort(), z3.IntSort())
    i, j = z3.Int(fresh_name('i')), z3.Int(fresh_name('j'))
    state.assume(
        seq_len(r) == n,
        z3.ForAll([i], z3.Implies(z3.And(0 <= i, i < n),
                                  z3.And(0 <= seq_at(r, i), seq_at(r, i) < n, inv(seq_at(r, i)) == i))),
        z3.ForAll([j], z3.Implies(z3.And(0 <= j, j < n),
                                  z3.And(0 <= inv(j), inv(j) < n, seq_at(r, inv(j)) == j))),
        z3.ForAll([i, j], z3.Implies(z3.And(0 <= i, i < j, j < n),
                                     seq_at(v, seq_at(r, i)) <= seq_at(v, seq_at(r, j)))))
    return r


@q('numpy.unique')
def np_unique(ev, state, node):
    v = ev.eval(state, node.args[0])
    if v.ty[0] not in ('arr', 'list') or v.ty[1] not in (T.INT, T.NAME):
        raise Unsupported("unique operand")
    rc = _kw(node, 'return_counts')
    want_counts = isinstance(rc, ast.Constant) and rc.value is True
    n = seq_len(v)
    u = fresh(T.TArr(v.ty[1]), 'unique')
    m = seq_len(u)
    pos = z3.Function(fresh_name('upos'), z3.IntSort(), z3.IntSort())   # value -> position in u
    i, j = z3.Int(fresh_name('i')), z3.Int(fresh_name('j'))
    wit = z3.Function(fresh_name('uwit'), z3.IntSort(), z3.IntSort())   # position in u -> index in v
    state.assume(
        0 <= m, m <= n, z3.Implies(n > 0, m >= 1),
        z3.ForAll([i, j], z3.Implies(z3.And(0 <= i, i < j, j < m), seq_at(u, i) < seq_at(u, j))),
        z3.ForAll([i], z3.Implies(z3.And(0 <= i, i < n),
                                  z3.And(0 <= pos(seq_at(v, i)), pos(seq_at(v, i)) < m,
                                         seq_at(u, pos(seq_at(v, i))) == seq_at(v, i)))),
        z3.ForAll([j], z3.Implies(z3.And(0 <= j, j < m),
                                  z3.And(0 <= wit(j), wit(j) < n, seq_at(v, wit(j)) == seq_at(u, j)))))
    if not want_counts:
        return u
    c = fresh(T.TArr(T.INT), 'ucount')
    # counts are characterised through the uninterpreted counting function count_in(v, x)
    cnt = count_fn(v.ty)
    state.assume(seq_len(c) == m,
                 z3.ForAll([j], z3.Implies(z3.And(0 <= j, j < m),
                                           z3.And(seq_at(c, j) >= 1, seq_at(c, j) <= n,
                                                  seq_at(c, j) == cnt(v.term, seq_at(u, j))))))
    # a value is counted twice or more exactly when it sits at two different positions
    # (true of counting; d1 / d2 are the Skolem witnesses of the "only if" direction)
    d1 = z3.Function(fresh_name('dup1'), T.sort_of(v.ty[1]), z3.IntSort())
    d2 = z3.Function(fresh_name('dup2'), T.sort_of(v.ty[1]), z3.IntSort())
    x = z3.Const(fresh_name('ux'), T.sort_of(v.ty[1]))
    state.assume(
        z3.ForAll([i, j], z3.Implies(z3.And(0 <= i, i < j, j < n, seq_at(v, i) == seq_at(v, j)),
                                     cnt(v.term, seq_at(v, i)) >= 2)),
        z3.ForAll([x], z3.Implies(cnt(v.term, x) >= 2,
                                  z3.And(0 <= d1(x), d1(x) < d2(x), d2(x) < n,
                                         seq_at(v, d1(x)) == x, seq_at(v, d2(x)) == x))))
    ty = T.TTuple([u.ty, c.ty])
    return SymVal(ty, T.ctor(ty)(u.term, c.term))


_COUNT = {}


def count_fn(seq_ty):
    """count_in(seq, x): number of positions of seq holding x (uninterpreted; facts about it
    are supplied by lemmas)"""
    s = T.sort_of(seq_ty)
    if s not in _COUNT:
        _COUNT[s] = z3.Function('count_in_' + T.mangle(seq_ty), s, T.sort_of(seq_ty[1]), z3.IntSort())
    return _COUNT[s]


@q('numpy.where')
def np_where(ev, state, node):
    if len(node.args) != 1:
        raise Unsupported("3-argument where")
    mask = ev.eval(state, node.args[0])
    if mask.ty != T.TArr(T.BOOL):
        raise Unsupported("where operand")
    n = seq_len(mask)
    idx = fresh(T.TArr(T.INT), 'arange_for_where')
    i = z3.Int(fresh_name('wi'))
    state.assume(seq_len(idx) == n,
                 z3.ForAll([i], z3.Implies(z3.And(0 <= i, i < n), seq_at(idx, i) == i)))
    r = mask_select(ev, state, idx, mask, node)
    ty = T.TTuple([r.ty])
    return SymVal(ty, T.ctor(ty)(r.term))


@q('numpy.sum')
def np_sum(ev, state, node):
    raise Unsupported("np.sum")


@q('numpy.ceil')
def np_ceil(ev, state, node):
    v = ev.eval(state, node.args[0])
    x = to_real(v)
    r = z3.Int(fresh_name('ceil'))
    state.assume(z3.ToReal(r) >= x, z3.ToReal(r) - x < 1)
    return SymVal(T.REAL, z3.ToReal(r), ('integral', r))


@q('numpy.floor')
def np_floor(ev, state, node):
    v = ev.eval(state, node.args[0])
    if v.ty == T.INT:
        return v
    x = to_real(v)
    r = z3.Int(fresh_name('floor'))
    state.assume(z3.ToReal(r) <= x, x - z3.ToReal(r) < 1)
    return SymVal(T.REAL, z3.ToReal(r), ('integral', r))


def method(ev, state, node, recv, ref, name):
    if recv.ty[0] == 'arr':
        if name in ('min', 'max') and not node.args:
            return reduce_minmax(ev, state, recv, name, node)
        if name == 'astype':
            d = node.args[0]
            tgt = None
            if isinstance(d, ast.Name) and d.id in ('int', 'float', 'bool'):
                tgt = {'int': T.INT, 'float': T.REAL, 'bool': T.BOOL}[d.id]
            else:
                dv = ev.eval(state, d)
                if dv.meta and dv.meta[0] == 'dtype':
                    tgt = T.REAL if dv.meta[1].startswith('float') else T.INT
            if tgt == recv.ty[1]:
                return SymVal(recv.ty, recv.term)
            raise Unsupported("astype conversion")
        if name == 'copy':
            return SymVal(recv.ty, recv.term)
        if name == 'sum' and not node.args and not node.keywords:
            raise Unsupported("arr.sum()")
        if name == 'tolist':
            return SymVal(T.TList(recv.ty[1]), recv.term)
    if recv.ty[0] == 'arr2':
        if name in ('min', 'max') and not node.args and not node.keywords:
            return reduce_minmax2(ev, state, recv, name, node)
        if name == 'copy':
            return SymVal(recv.ty, recv.term)
    return None


def scalar_method(ev, state, node, recv, name):
    """methods on numpy scalars: x.astype(int)"""
    if name == 'astype':
        d = node.args[0]
        if isinstance(d, ast.Name) and d.id == 'int':
            if recv.meta and recv.meta[0] == 'integral':
                return SymVal(T.INT, recv.meta[1])
            if recv.ty == T.INT:
                return recv
            if recv.ty == T.REAL:
                t = recv.term
                return SymVal(T.INT, z3.If(t >= 0, z3.ToInt(t), -z3.ToInt(-t)))
    return None


def m_n0(v):
    return T.acc(v.ty, 'n0')(v.term)


def m_n1(v):
    return T.acc(v.ty, 'n1')(v.term)


def m_at(v, i, j):
    return T.acc(v.ty, 'at')(v.term)[i, j]


def _is_full_slice(sl):
    return isinstance(sl, ast.Slice) and sl.lower is None and sl.upper is None and sl.step is None


def arr2_subscript(ev, state, base, node):
    sl = node.slice
    n0, n1 = m_n0(base), m_n1(base)
    ety = base.ty[1]
    if isinstance(sl, ast.Tuple) and not sl.elts:
        return SymVal(base.ty, base.term)      # m[()] : the whole array (h5py: read the dataset)
    if isinstance(sl, ast.Tuple) and len(sl.elts) == 2 and all(isinstance(e, ast.Slice) for e in sl.elts) \
            and not all(_is_full_slice(e) for e in sl.elts[1:]):
        # m[a:b, c:d] : rectangular block (bounds clipped as Python slices are)
        rlo, rhi = ev.slice_bounds(state, n0, sl.elts[0])
        clo, chi = ev.slice_bounds(state, n1, sl.elts[1])
        r = fresh(base.ty, 'block')
        k, c = z3.Int(fresh_name('k')), z3.Int(fresh_name('c'))
        rn = z3.If(rhi > rlo, rhi - rlo, 0)
        cn = z3.If(chi > clo, chi - clo, 0)
        state.assume(m_n0(r) == rn, m_n1(r) == cn,
                     z3.ForAll([k, c], z3.Implies(z3.And(0 <= k, k < rn, 0 <= c, c < cn),
                                                  m_at(r, k, c) == m_at(base, rlo + k, clo + c)),
                               patterns=[m_at(r, k, c)]),
                     # the same fact indexed from the source side (trigger on base[x, y])
                     z3.ForAll([k, c], z3.Implies(z3.And(rlo <= k, k < rlo + rn, clo <= c, c < clo + cn),
                                                  m_at(base, k, c) == m_at(r, k - rlo, c - clo)),
                               patterns=[m_at(base, k, c)]))
        return r
    if not isinstance(sl, ast.Tuple) or len(sl.elts) != 2:
        # m[i] -> row i ; m[a:b] -> row block
        sl = ast.Tuple(elts=[sl, ast.Slice(lower=None, upper=None, step=None)], ctx=ast.Load())
    a, b = sl.elts
    if not isinstance(a, ast.Slice) and not isinstance(b, ast.Slice):
        iv, jv = ev.eval(state, a), ev.eval(state, b)
        if iv.ty in (T.INT,) and jv.ty in (T.INT,):
            i, j = to_int(iv), to_int(jv)
            ev.ctx.oblige(state, z3.And(0 <= i, i < n0, 0 <= j, j < n1), 'IndexError', node,
                          '2-D index in range (negative indices not modelled)')
            return SymVal(ety, m_at(base, i, j))
        raise Unsupported("2-D fancy read")
    if _is_full_slice(b) and not isinstance(a, ast.Slice):
        iv = ev.eval(state, a)
        if iv.ty == T.INT:
            i = to_int(iv)
            ev.ctx.oblige(state, z3.And(0 <= i, i < n0), 'IndexError', node, 'row index in range')
            r = fresh(T.TArr(ety), 'row')
            k = z3.Int(fresh_name('k'))
            state.assume(seq_len(r) == n1,
                         z3.ForAll([k], z3.Implies(z3.And(0 <= k, k < n1), seq_at(r, k) == m_at(base, i, k))))
            return r
        if iv.ty[0] in ('arr', 'list') and iv.ty[1] == T.INT:
            m = seq_len(iv)
            k, c = z3.Int(fresh_name('k')), z3.Int(fresh_name('c'))
            ev.ctx.oblige(state, z3.ForAll([k], z3.Implies(z3.And(0 <= k, k < m),
                                                           z3.And(0 <= seq_at(iv, k), seq_at(iv, k) < n0))),
                          'IndexError', node, 'row indices in range')
            r = fresh(base.ty, 'rows')
            state.assume(m_n0(r) == m, m_n1(r) == n1,
                         z3.ForAll([k, c], z3.Implies(z3.And(0 <= k, k < m, 0 <= c, c < n1),
                                                      m_at(r, k, c) == m_at(base, seq_at(iv, k), c))))
            return r
        raise Unsupported("2-D row selection")
    if isinstance(a, ast.Slice) and _is_full_slice(b):
        lo, hi = ev.slice_bounds(state, n0, a)
        r = fresh(base.ty, 'rowblock')
        k, c = z3.Int(fresh_name('k')), z3.Int(fresh_name('c'))
        ln = z3.If(hi > lo, hi - lo, 0)
        state.assume(m_n0(r) == ln, m_n1(r) == n1,
                     z3.ForAll([k, c], z3.Implies(z3.And(0 <= k, k < ln, 0 <= c, c < n1),
                                                  m_at(r, k, c) == m_at(base, lo + k, c))))
        return r
    raise Unsupported("2-D subscript form")


def arr2_store(ev, state, base, target, v, node):
    sl = target.slice
    n0, n1 = m_n0(base), m_n1(base)
    ety = base.ty[1]
    if not isinstance(sl, ast.Tuple) or len(sl.elts) != 2:
        raise Unsupported("2-D store form")
    a, b = sl.elts
    r = fresh(base.ty, 'mstore')
    x, y = z3.Int(fresh_name('x')), z3.Int(fresh_name('y'))
    k, k2 = z3.Int(fresh_name('k')), z3.Int(fresh_name('k2'))
    if isinstance(a, ast.Slice):
        raise Unsupported("2-D block store")
    iv = ev.eval(state, a)
    if iv.ty != T.INT:
        raise Unsupported("2-D store row index")
    i = to_int(iv)
    ev.ctx.oblige(state, z3.And(0 <= i, i < n0), 'IndexError', node, 'row index in range')
    if _is_full_slice(b):
        if v.ty[0] not in ('arr', 'list'):
            raise Unsupported("row store of scalar")
        ev.ctx.oblige(state, seq_len(v) == n1, 'ValueError', node, 'row has the width of the matrix')
        state.assume(m_n0(r) == n0, m_n1(r) == n1,
                     z3.ForAll([x, y], z3.Implies(z3.And(0 <= x, x < n0, 0 <= y, y < n1),
                                                  m_at(r, x, y) == z3.If(x == i, seq_at(v, y), m_at(base, x, y)))))
        return r
    jv = ev.eval(state, b)
    if jv.ty == T.INT:
        j = to_int(jv)
        ev.ctx.oblige(state, z3.And(0 <= j, j < n1), 'IndexError', node, 'column index in range')
        val = coerce(v, ety).term
        state.assume(m_n0(r) == n0, m_n1(r) == n1,
                     z3.ForAll([x, y], z3.Implies(z3.And(0 <= x, x < n0, 0 <= y, y < n1),
                                                  m_at(r, x, y) == z3.If(z3.And(x == i, y == j), val, m_at(base, x, y)))))
        return r
    if jv.ty[0] in ('arr', 'list') and jv.ty[1] == T.INT:
        m = seq_len(jv)
        ev.ctx.oblige(state, z3.ForAll([k], z3.Implies(z3.And(0 <= k, k < m),
                                                       z3.And(0 <= seq_at(jv, k), seq_at(jv, k) < n1))),
                      'IndexError', node, 'column indices in range')
        if v.ty[0] in ('arr', 'list'):
            ev.ctx.oblige(state, seq_len(v) == m, 'ValueError', node, 'one value per column index')
            val = lambda kk: seq_at(v, kk)
        else:
            sv = coerce(v, ety).term
            val = lambda kk: sv
        hit = z3.Function(fresh_name('hit'), z3.IntSort(), z3.IntSort())   # column -> last k writing it
        state.assume(
            m_n0(r) == n0, m_n1(r) == n1,
            # untouched cells
            z3.ForAll([x, y], z3.Implies(z3.And(0 <= x, x < n0, 0 <= y, y < n1,
                                                z3.Or(x != i, z3.ForAll([k], z3.Implies(z3.And(0 <= k, k < m), seq_at(jv, k) != y)))),
                                         m_at(r, x, y) == m_at(base, x, y))),
            # written cells: the last write wins
            z3.ForAll([k], z3.Implies(z3.And(0 <= k, k < m,
                                             z3.ForAll([k2], z3.Implies(z3.And(k < k2, k2 < m), seq_at(jv, k2) != seq_at(jv, k)))),
                                      m_at(r, i, seq_at(jv, k)) == val(k))))
        return r
    raise Unsupported("2-D store column index")
