"""Symbolic executor: real function AST (+ sidecar contract) -> verification conditions.

See DESIGN.md section 2 for the semantics assumed.  Nothing in here imports the repository;
functions are read from source with `ast` on every run.
"""
import ast
import copy
import itertools
import z3

from . import types as T
from .values import (SymVal, Unsupported, fresh, fresh_name, const_int, const_real, const_bool,
                     NONEVAL, literal, wf, seq_len, seq_at, mk_seq, empty_seq, seq_append,
                     seq_store, dict_dom, dict_val, dict_card, mk_dict, empty_dict, dict_store,
                     dict_remove, set_has, set_card, mk_set, empty_set, set_add, set_remove,
                     membership_array, card_of, default_of)

EXC_PARENTS = {
    'KeyError': 'LookupError', 'IndexError': 'LookupError', 'LookupError': 'Exception',
    'RuntimeError': 'Exception', 'ValueError': 'Exception', 'TypeError': 'Exception',
    'ZeroDivisionError': 'ArithmeticError', 'ArithmeticError': 'Exception',
    'UnboundLocalError': 'NameError', 'NameError': 'Exception', 'StopIteration': 'Exception',
    'NotImplementedError': 'RuntimeError', 'AssertionError': 'Exception',
    'FileNotFoundError': 'OSError', 'OSError': 'Exception', 'AttributeError': 'Exception',
    'Exception': 'BaseException', 'BaseException': None,
    'MalformedMappingFileError': 'Exception', 'InvalidMarkerLookupError': 'Exception',
}


def exc_is(sub, sup):
    while sub is not None:
        if sub == sup:
            return True
        sub = EXC_PARENTS.get(sub, 'Exception' if sub not in ('BaseException',) else None)
    return False


class Ref:
    __slots__ = ('cid', 'path')

    def __init__(self, cid, path=()):
        self.cid = cid
        self.path = tuple(path)

    def __repr__(self):
        return f"Ref({self.cid},{self.path})"


class Obligation:
    def __init__(self, oid, func, lineno, kind, text, hyps, goal, src=''):
        self.id = oid
        self.func = func
        self.lineno = lineno
        self.kind = kind
        self.text = text
        self.hyps = list(hyps)
        self.goal = goal
        self.src = src


class State:
    _cid = itertools.count()

    def __init__(self):
        self.env = {}      # name -> Ref
        self.cells = {}    # cid -> SymVal
        self.asg = {}      # name -> z3 Bool (True when definitely assigned)
        self.pc = []
        self.ghost = {}    # spec-only names -> SymVal
        self.events = None  # ghost event trace value (SymVal) if used

    def copy(self):
        s = State()
        s.env = dict(self.env)
        s.cells = dict(self.cells)
        s.asg = dict(self.asg)
        s.pc = list(self.pc)
        s.ghost = dict(self.ghost)
        s.events = self.events
        return s

    def new_cell(self, val):
        cid = next(State._cid)
        self.cells[cid] = val
        return Ref(cid)

    def bind(self, name, val):
        self.env[name] = self.new_cell(val)
        self.asg[name] = z3.BoolVal(True)

    def assume(self, *facts):
        for f in facts:
            if z3.is_true(f):
                continue
            self.pc.append(f)


# ---------------------------------------------------------------------------------------------
# value-level helpers
# ---------------------------------------------------------------------------------------------
def is_num(ty):
    return ty in (T.INT, T.REAL, T.BOOL)


def to_real(v):
    if v.ty == T.REAL:
        return v.term
    if v.ty == T.INT or v.ty == T.NAME:
        return z3.ToReal(v.term)
    if v.ty == T.BOOL:
        return z3.If(v.term, z3.RealVal(1), z3.RealVal(0))
    raise Unsupported(f"to_real of {T.show(v.ty)}")


def to_int(v):
    if v.ty in (T.INT, T.NAME):
        return v.term
    if v.ty == T.BOOL:
        return z3.If(v.term, z3.IntVal(1), z3.IntVal(0))
    raise Unsupported(f"to_int of {T.show(v.ty)}")


TRUTHY = z3.Function('truthy', T.OpaqueSort, z3.BoolSort())
IS_NONE = z3.Function('opaque_is_none', T.OpaqueSort, z3.BoolSort())


def truth(v):
    """Python truthiness"""
    k = v.ty[0]
    if k == 'bool':
        return v.term
    if k == 'int':
        return v.term != 0
    if k == 'real':
        return v.term != 0
    if k == 'none':
        return z3.BoolVal(False)
    if k in ('list', 'arr'):
        return seq_len(v) > 0
    if k in ('dict', 'set'):
        return card_of(v) > 0
    if k == 'opt':
        inner = SymVal(v.ty[1], T.acc(v.ty, 'val')(v.term))
        if v.ty[1][0] in ('rec', 'tuple', 'opaque', 'name'):
            return z3.Not(T.opt_is_none(v.ty, v.term))
        return z3.And(z3.Not(T.opt_is_none(v.ty, v.term)), truth(inner))
    if k == 'opaque':
        return TRUTHY(v.term)      # same abstracted value => same truth value
    if k in ('rec', 'tuple'):
        return z3.BoolVal(True)
    raise Unsupported(f"truth of {T.show(v.ty)}")


def join_types(a, b):
    """least type both coerce to, or None"""
    if a == b:
        return a
    if {a, b} <= {T.INT, T.REAL, T.BOOL}:
        return T.REAL if T.REAL in (a, b) else T.INT
    if {a, b} == {T.INT, T.NAME}:
        return T.INT
    if a == T.NONE and b[0] == 'opt':
        return b
    if b == T.NONE and a[0] == 'opt':
        return a
    if a == T.NONE:
        return T.TOpt(b)
    if b == T.NONE:
        return T.TOpt(a)
    if a[0] == 'opt' and b[0] != 'opt':
        j = join_types(a[1], b)
        return T.TOpt(j) if j is not None else None
    if b[0] == 'opt' and a[0] != 'opt':
        j = join_types(a, b[1])
        return T.TOpt(j) if j is not None else None
    if a[0] in ('list', 'arr') and b[0] in ('list', 'arr') and T.sort_of(a) == T.sort_of(b):
        return a
    if a[0] == b[0] and T.sort_of(a) == T.sort_of(b):
        return a
    return None


_INJ = {}


def inject_opaque(v):
    """any value seen as an abstracted (opaque) one: an uninterpreted injection per sort"""
    srt = T.sort_of(v.ty)
    if srt not in _INJ:
        _INJ[srt] = z3.Function('as_opaque_' + str(srt).replace(' ', '_'), srt, T.OpaqueSort)
    return SymVal(T.OPAQUE, _INJ[srt](v.term))


def coerce(v, ty):
    if v.ty == ty:
        return v
    if ty == T.OPAQUE:
        return inject_opaque(v)
    if ty == T.REAL and v.ty in (T.INT, T.BOOL):
        return SymVal(T.REAL, to_real(v))
    if ty == T.INT and v.ty in (T.BOOL, T.NAME):
        return SymVal(T.INT, to_int(v))
    if ty == T.NAME and v.ty == T.INT:
        return SymVal(T.NAME, v.term)
    if ty[0] == 'opt':
        if v.ty == T.NONE:
            return SymVal(ty, T.opt_none(ty))
        if v.ty[0] == 'opt':
            if T.sort_of(v.ty) == T.sort_of(ty):
                return SymVal(ty, v.term)
            raise Unsupported(f"coerce {T.show(v.ty)} -> {T.show(ty)}")
        inner = coerce(v, ty[1])
        return SymVal(ty, T.opt_some(ty, inner.term))
    if v.ty[0] in ('list', 'arr', 'dict', 'set', 'tuple') and ty[0] == v.ty[0] or \
            {v.ty[0], ty[0]} == {'list', 'arr'}:
        try:
            if T.sort_of(v.ty) == T.sort_of(ty):
                return SymVal(ty, v.term, v.meta)
        except Exception:
            pass
    if v.ty == T.TList(T.NONE) and ty[0] == 'list' and ty[1][0] == 'opt':
        # a list of Nones ([None] * n) as a list of optionals: every element is None
        return mk_seq(ty, seq_len(v), z3.K(z3.IntSort(), T.opt_none(ty[1])))
    if v.ty[0] in ('list', 'arr') and v.meta == ('empty',) and ty[0] in ('list', 'arr'):
        return empty_seq(ty)
    if v.ty[0] == 'arr' and ty[0] == 'arr' and v.ty[1] == T.BOOL and ty[1] == T.INT:
        # a numpy bool array read as integers: True -> 1, False -> 0 (element-wise)
        ci = z3.Int('coerce_b2i')
        at = T.acc(v.ty, 'at')(v.term)
        return SymVal(ty, T.ctor(ty)(T.acc(v.ty, 'len')(v.term),
                                     z3.Lambda([ci], z3.If(at[ci], z3.IntVal(1), z3.IntVal(0)))))
    if v.meta == ('empty',) and ty[0] == 'dict':
        return empty_dict(ty)
    if v.meta == ('empty',) and ty[0] == 'set':
        return empty_set(ty)
    if ty[0] == 'tuple' and v.ty[0] == 'tuple' and len(ty[1]) == len(v.ty[1]):
        parts = [coerce(SymVal(et, T.acc(v.ty, f'f{i}')(v.term)), tt).term
                 for i, (et, tt) in enumerate(zip(v.ty[1], ty[1]))]
        return SymVal(ty, T.ctor(ty)(*parts))
    raise Unsupported(f"cannot coerce {T.show(v.ty)} to {T.show(ty)}")


def values_equal(a, b, depth=0):
    """Python == as a formula"""
    if a.ty == T.NONE and b.ty == T.NONE:
        return z3.BoolVal(True)
    if a.ty == T.NONE or b.ty == T.NONE:
        o, n = (b, a) if a.ty == T.NONE else (a, b)
        if o.ty[0] == 'opt':
            return T.opt_is_none(o.ty, o.term)
        return z3.BoolVal(False)
    if a.ty[0] == 'opt' and b.ty[0] == 'opt':
        ia = SymVal(a.ty[1], T.acc(a.ty, 'val')(a.term))
        ib = SymVal(b.ty[1], T.acc(b.ty, 'val')(b.term))
        na, nb = T.opt_is_none(a.ty, a.term), T.opt_is_none(b.ty, b.term)
        return z3.Or(z3.And(na, nb), z3.And(z3.Not(na), z3.Not(nb), values_equal(ia, ib, depth)))
    if a.ty[0] == 'opt':
        ia = SymVal(a.ty[1], T.acc(a.ty, 'val')(a.term))
        return z3.And(z3.Not(T.opt_is_none(a.ty, a.term)), values_equal(ia, b, depth))
    if b.ty[0] == 'opt':
        return values_equal(b, a, depth)
    if is_num(a.ty) and is_num(b.ty):
        if T.REAL in (a.ty, b.ty):
            return to_real(a) == to_real(b)
        if a.ty == T.BOOL and b.ty == T.BOOL:
            return a.term == b.term
        return to_int(a) == to_int(b)
    if a.ty in (T.NAME, T.INT) and b.ty in (T.NAME, T.INT):
        return a.term == b.term
    if a.ty == T.OPAQUE and b.ty == T.OPAQUE:
        return a.term == b.term
    ka, kb = a.ty[0], b.ty[0]
    if ka in ('list', 'arr') and kb in ('list', 'arr'):
        i = z3.Int(fresh_name('eqi'))
        ea, eb = SymVal(a.ty[1], seq_at(a, i)), SymVal(b.ty[1], seq_at(b, i))
        return z3.And(seq_len(a) == seq_len(b),
                      z3.ForAll([i], z3.Implies(z3.And(0 <= i, i < seq_len(a)),
                                                values_equal(ea, eb, depth + 1))))
    if ka == 'set' and kb == 'set':
        k = z3.Const(fresh_name('eqk'), T.sort_of(a.ty[1]))
        return z3.ForAll([k], set_has(a)[k] == set_has(b)[k])
    if ka == 'dict' and kb == 'dict':
        k = z3.Const(fresh_name('eqk'), T.sort_of(a.ty[1]))
        va, vb = SymVal(a.ty[2], dict_val(a)[k]), SymVal(b.ty[2], dict_val(b)[k])
        return z3.ForAll([k], z3.And(dict_dom(a)[k] == dict_dom(b)[k],
                                     z3.Implies(dict_dom(a)[k], values_equal(va, vb, depth + 1))))
    if ka == 'tuple' and kb == 'tuple':
        if len(a.ty[1]) != len(b.ty[1]):
            return z3.BoolVal(False)
        return z3.And(*[values_equal(SymVal(ta, T.acc(a.ty, f'f{i}')(a.term)),
                                     SymVal(tb, T.acc(b.ty, f'f{i}')(b.term)), depth + 1)
                        for i, (ta, tb) in enumerate(zip(a.ty[1], b.ty[1]))]) \
            if a.ty[1] else z3.BoolVal(True)
    if ka == 'rec' and kb == 'rec' and a.ty == b.ty:
        return z3.And(*[values_equal(SymVal(ft, T.acc(a.ty, f)(a.term)),
                                     SymVal(ft, T.acc(b.ty, f)(b.term)), depth + 1)
                        for f, ft in T.RECORDS[a.ty[1]].items()])
    if a.ty != b.ty:
        # values of unrelated types are never equal in the code we model (str vs int, ...)
        if {ka, kb} & {'opaque'}:
            return z3.Bool(fresh_name('opaque_eq'))
        return z3.BoolVal(False)
    return a.term == b.term
