"""Function-level verification: contract + real AST -> obligations -> solver verdicts."""
import ast
import os
import subprocess
import tempfile
import time
import traceback
import z3

from . import types as T
from .values import (SymVal, Unsupported, fresh, fresh_name, NONEVAL, wf, literal_axioms)
from .engine import State, Obligation, truth, coerce, exc_is
from .symexec import Ctx, Evaluator, read_ref
from .execs import Executor, Outcome, feasible
from .contracts import find_function, ContractError, REGISTRY, DynamicLoops, loop_shape
from . import prims as _prims   # noqa: F401
from . import ghost as _ghost   # noqa: F401  (registers process / scratch primitives)

Z3_TIMEOUT_MS = int(os.environ.get('VERIF_Z3_TIMEOUT_MS', '10000'))
try:
    import json as _json
    LOOP_SHAPES = _json.load(open(os.path.join(os.path.dirname(os.path.dirname(os.path.abspath(__file__))),
                                               'contract_loop_shapes.json')))
except Exception:      # noqa
    LOOP_SHAPES = {}
try:
    PARAM_LISTS = _json.load(open(os.path.join(os.path.dirname(os.path.dirname(os.path.abspath(__file__))),
                                               'contract_param_lists.json')))
except Exception:      # noqa
    PARAM_LISTS = {}
CVC5_TIMEOUT_MS = int(os.environ.get('VERIF_CVC5_TIMEOUT_MS', '10000'))
CVC5_BIN = '/usr/bin/cvc5'


class VacuousContract(Exception):
    pass


class FunctionResult:
    def __init__(self, qualname):
        self.qualname = qualname
        self.status = 'ok'          # ok | unsupported | contract-out-of-date | crash
        self.message = ''
        self.obligations = []       # dicts: id, kind, text, line, src, verdict, backend, time_s, model
        self.abstracted = []
        self.notes = []
        self.trusted_used = []
        self.callees = []
        self.paths = 0
        self.gen_time_s = 0.0
        self.solve_time_s = 0.0
        self.mode = 'full'
        self.source_lines = (0, 0)
        self.source_path = ''

    def to_dict(self):
        return dict(self.__dict__)


def spec_eval(ctx, ev, state, expr):
    ctx.spec_mode += 1
    try:
        return truth(ev.eval(state, expr))
    finally:
        ctx.spec_mode -= 1


def generate(c, registry=REGISTRY):
    """returns (ctx, info) with ctx.obligations filled"""
    info, fn, cls = find_function(c.qualname)
    # guard G-S: invariants are keyed by loop ordinal; a function whose loop structure is no longer the
    # one the contract was written against is reported as "contract out of date" (exit 2), never as
    # failed obligations of invariants that now sit on the wrong loops
    want = LOOP_SHAPES.get(c.qualname)
    if want is not None and c.loops and not isinstance(c.loops, DynamicLoops) \
            and os.environ.get('VERIF_NO_SHAPE_GUARD') != '1':
        have = loop_shape(fn)
        if have != want:
            raise ContractError(f"{c.qualname}: loop structure changed (contract written for [{want}], "
                                f"source now has [{have}]): loop invariants are keyed by loop ordinal "
                                f"(contract out of date)")
    lenient = c.mode == 'slice'
    ctx = Ctx(c.qualname, fn, info, c, registry, lenient=lenient)
    ex = Executor(ctx)
    ev = ex.ev
    state = State()
    a = fn.args
    params = [x.arg for x in a.posonlyargs + a.args + a.kwonlyargs]
    if a.vararg or a.kwarg:
        raise Unsupported("*args / **kwargs")
    # parameters added after the contract was written (guard G-S records the parameter list): the
    # property's quantifier does not range over them and no caller under contract passes them, so an
    # added parameter with a literal default is fixed to that default
    known_params = PARAM_LISTS.get(c.qualname)
    defaults = {}
    pos = a.posonlyargs + a.args
    for arg, d in zip(pos[len(pos) - len(a.defaults):], a.defaults):
        defaults[arg.arg] = d
    for arg, d in zip(a.kwonlyargs, a.kw_defaults):
        if d is not None:
            defaults[arg.arg] = d
    for p in params:
        ty = c.param_type(p)
        if ty is None and known_params is not None and p not in known_params and p != 'self' \
                and isinstance(defaults.get(p), ast.Constant) and os.environ.get('VERIF_NO_SHAPE_GUARD') != '1':
            v = ev.eval(state, defaults[p])
            state.bind(p, v)
            ctx.notes.append(f"parameter {p} did not exist when the contract was written: fixed to its "
                             f"default {ast.unparse(defaults[p])}")
            continue
        if ty is None:
            if lenient:
                ty = T.OPAQUE
            else:
                raise ContractError(f"{c.qualname}: parameter {p} has no declared type")
        v = fresh(ty, p)
        state.bind(p, v)
        state.assume(*wf(v))
    for p in c.params:
        if p not in params and p != 'self':
            raise ContractError(f"{c.qualname}: contract names parameter {p} which the function "
                                f"no longer has (contract out of date)")
    # ghost variables declared by the contract: name -> type (start empty / zero)
    for gname, gty in (c.ghost.get('vars') or {}).items():
        gt = T.parse_type(gty) if isinstance(gty, str) else gty
        from .values import empty_set, empty_seq, empty_dict, const_int
        init = {'set': empty_set, 'list': empty_seq, 'dict': empty_dict}.get(gt[0])
        if gt == T.BOOL:
            from .values import const_bool
            state.bind(gname, const_bool(False))
        else:
            state.bind(gname, init(gt) if init else const_int(0))
    ctx.entry = state.copy()
    ctx.entry.pc = state.pc
    for text, expr in c.parsed('requires'):
        state.assume(spec_eval(ctx, ev, state, expr))
    for text, expr in c.parsed('env_assumes'):
        state.assume(spec_eval(ctx, ev, state, expr))
    for kf in c.known_findings:
        if kf.get('exclude'):
            ex_expr = ast.parse(kf['exclude'].strip(), mode='eval').body
            state.assume(z3.Not(spec_eval(ctx, ev, state, ex_expr)))
            ctx.notes.append(f"known finding {kf['id']}: proved outside the witness class `{kf['exclude']}`")
    ctx.entry = state.copy()
    ctx.requires_pc = list(state.pc)
    # guard G-V: the pre-condition must be satisfiable (a contradictory `requires` proves anything)
    sv = z3.Solver()
    sv.set('timeout', 3000)
    for f_ in state.pc:
        sv.add(f_)
    if sv.check() == z3.unsat:
        raise VacuousContract(f"{c.qualname}: requires is unsatisfiable (guard G-V)")
    base_len = len(state.pc)
    outs = ex.block(fn.body, state)
    if len(outs) > 8:
        from .execs import merge_outcomes
        outs = [Outcome('return', o.state, value=NONEVAL) if o.kind == 'normal' else o for o in outs]
        outs = merge_outcomes(outs, base_len)
    entry_env = ctx.entry.env
    n_paths = 0
    for o in outs:
        if o.kind == 'normal':
            o = Outcome('return', o.state, value=NONEVAL)
        if o.kind in ('break', 'continue'):
            raise Unsupported("break/continue outside loop")
        if o.kind == 'raise' and lenient and c.unexpected_exceptions == 'allowed' \
                and not c.raises and not c.ensures_exc and not c.ensures_all:
            continue
        if not feasible(o.state):
            continue
        n_paths += 1
        st = o.state
        if o.kind == 'return':
            post = State()
            post.pc = st.pc
            post.cells = st.cells
            post.env = dict(entry_env)
            post.asg = dict(ctx.entry.asg)
            post.ghost = dict(st.ghost)
            val = o.value
            rty = c.return_type()
            if rty is not None and val is not None:
                try:
                    val = coerce(val, rty)
                except Unsupported as e:
                    raise Unsupported(f"returned value of type {T.show(val.ty)} is not {T.show(rty)}")
            post.ghost['result'] = val
            post.ghost['__final__'] = st      # final values of locals: spec function final('name')
            post.final_env = st.env
            post.final_asg = st.asg
            for text, expr in c.parsed('ensures') + c.parsed('ensures_all'):
                g = spec_eval(ctx, ev, post, expr)
                ctx.oblige(post, g, 'ensures', fn, f"ensures {text}", assume=False)
            for exc, (mode, text, expr) in c.parsed_raises().items():
                if mode == 'iff' and expr is not None:
                    g = spec_eval(ctx, ev, ctx_entry_view(ctx, st), expr)
                    ctx.oblige(post, z3.Not(g), 'must-raise', fn,
                               f"normal return only if not ({text})  [{exc}]")
            for text in c.must_raise:
                g = spec_eval(ctx, ev, ctx_entry_view(ctx, st), ast.parse(text, mode='eval').body)
                ctx.oblige(post, z3.Not(g), 'must-raise', fn, f"normal return only if not ({text})")
        elif o.kind == 'raise':
            if c.ensures_exc or c.ensures_all:
                postx = State()
                postx.pc = st.pc
                postx.cells = st.cells
                postx.env = dict(entry_env)
                postx.asg = dict(ctx.entry.asg)
                postx.ghost = dict(st.ghost)
                postx.final_env = st.env
                postx.final_asg = st.asg
                for text, expr in c.parsed('ensures_exc') + c.parsed('ensures_all'):
                    g = spec_eval(ctx, ev, postx, expr)
                    ctx.oblige(postx, g, 'ensures-exc', fn, f"on exceptional exit ({o.exc}): {text}",
                               assume=False)
            allowed = None
            for exc, (mode, text, expr) in c.parsed_raises().items():
                if exc_is(o.exc, exc) or (o.exc == 'Exception' and lenient and exc == 'Exception'):
                    allowed = (exc, text, expr)
                    break
            if allowed is None:
                if lenient and c.unexpected_exceptions == 'allowed':
                    continue
                ctx.oblige(st, z3.BoolVal(False), 'unexpected-exception', fn,
                           f"{o.exc} cannot escape (not listed in raises)")
            else:
                exc, text, expr = allowed
                if expr is not None:
                    g = spec_eval(ctx, ev, ctx_entry_view(ctx, st), expr)
                    ctx.oblige(st, g, 'raises', fn, f"{o.exc} escapes only if {text}")
    ctx.paths_explored = n_paths
    return ctx, info, fn


def ctx_entry_view(ctx, st):
    """state for evaluating an entry-state expression along the path of st"""
    v = ctx.entry.copy()
    v.pc = st.pc
    return v


# ---------------------------------------------------------------------------------------------
# discharge
# ---------------------------------------------------------------------------------------------
PORTFOLIO = [
    # (label, options, share of the per-obligation budget)
    ('z3', {}, 0.2),
    ('z3(mbqi-only)', {'ematching': False}, 0.25),
    ('z3(ematch-only)', {'mbqi': False}, 0.25),
    ('z3(seed7)', {'random_seed': 7}, 0.25),
]


def _mk_solver(ob, axioms, timeout_ms, opts):
    s = z3.Solver()
    s.set('timeout', int(timeout_ms))
    for k, v in opts.items():
        s.set(k, v)
    for a in axioms:
        s.add(a)
    for h in ob.hyps:
        s.add(h)
    s.add(z3.Not(ob.goal))
    return s


def _has_quantifier(t, cache):
    todo = [t]
    while todo:
        x = todo.pop()
        i = x.get_id()
        if i in cache:
            continue
        cache.add(i)
        if z3.is_quantifier(x):
            return True
        todo.extend(x.children())
    return False


def _has_nonlinear_mul(t):
    todo, seen = [t], set()
    while todo:
        x = todo.pop()
        i = x.get_id()
        if i in seen:
            continue
        seen.add(i)
        if z3.is_app(x):
            if x.decl().kind() == z3.Z3_OP_MUL and \
                    sum(1 for c in x.children() if not (z3.is_int_value(c) or z3.is_rational_value(c))) >= 2:
                return True
            todo.extend(x.children())
    return False


def _ground_attempt(ob, axioms, timeout_ms):
    hyps = [h for h in list(axioms) + list(ob.hyps) if not _has_quantifier(h, set())]
    if len(hyps) == len(axioms) + len(ob.hyps):
        return False
    s = z3.Solver()
    s.set('timeout', int(timeout_ms))
    for h in hyps:
        s.add(h)
    s.add(z3.Not(ob.goal))
    return s.check() == z3.unsat


_GEN_NAME = None


def _const_names(t):
    acc, seen, todo = set(), set(), [t]
    while todo:
        x = todo.pop()
        i = x.get_id()
        if i in seen:
            continue
        seen.add(i)
        if z3.is_quantifier(x):
            todo.append(x.body())
        elif z3.is_app(x):
            if x.num_args() == 0:
                acc.add(x.decl().name())
            else:
                todo.extend(x.children())
    return acc


def _current_generation_attempt(ob, axioms, timeout_ms):
    """Loop cutting leaves the facts about superseded values of loop-carried variables
    (`lp_<name>!k` with a newer `lp_<name>!k'` present) in the path condition.  Retry without
    the *quantified* hypotheses that mention such a superseded value, E-matching only.
    Dropping hypotheses is sound for `proved`; any other answer is ignored."""
    import re
    pat = re.compile(r'^(lp_.+)!(\d+)$')
    per_hyp = [(h, _const_names(h)) for h in ob.hyps]
    newest = {}
    for names in [n for _, n in per_hyp] + [_const_names(ob.goal)]:
        for nm in names:
            m = pat.match(nm)
            if m:
                newest[m.group(1)] = max(newest.get(m.group(1), -1), int(m.group(2)))
    dead = set()
    for _, names in per_hyp:
        for nm in names:
            m = pat.match(nm)
            if m and int(m.group(2)) < newest[m.group(1)]:
                dead.add(nm)
    if not dead:
        return False
    hyps = [h for h, names in per_hyp if not (names & dead and _has_quantifier(h, set()))]
    if len(hyps) == len(ob.hyps):
        return False
    s = z3.Solver()
    s.set('timeout', int(timeout_ms))
    s.set('mbqi', False)
    for a in axioms:
        s.add(a)
    for h in hyps:
        s.add(h)
    s.add(z3.Not(ob.goal))
    return s.check() == z3.unsat


def solve_one(ob, axioms, timeout_ms=None, want_model=True, first_opts=None):
    """portfolio: z3 default, cvc5, then z3 MBQI-only / E-matching-only / other seed.
    proved = some back end says unsat; refuted = some back end produces a model;
    otherwise unknown (never reported as a counter-example).
    first_opts (contract ghost['solver_first']): z3 options tried before the portfolio; only an
    `unsat` answer of that run is used (a proof is a proof under any option set)"""
    timeout_ms = timeout_ms or Z3_TIMEOUT_MS
    t0 = time.time()
    reasons = []
    first = None
    if first_opts:
        s0 = _mk_solver(ob, axioms, max(500, timeout_ms * 0.3), first_opts)
        if s0.check() == z3.unsat:
            return 'proved', 'z3(contract-opts)', time.time() - t0, None, None
    # a quantifier-free goal with a product of two unknowns (index bounds of work splitting, ...):
    # the arithmetic core is tried first on the quantifier-free hypotheses alone
    try:
        if not _has_quantifier(ob.goal, set()) and _has_nonlinear_mul(ob.goal) and \
                _ground_attempt(ob, axioms, min(2000, max(500, timeout_ms * 0.2))):
            return 'proved', 'z3(ground-hyps)', time.time() - t0, None, None
    except z3.Z3Exception:
        pass
    for n, (label, opts, share) in enumerate(PORTFOLIO):
        s = _mk_solver(ob, axioms, max(500, timeout_ms * share), opts)
        if first is None:
            first = s
        r = s.check()
        if r == z3.unsat:
            return 'proved', label, time.time() - t0, None, None
        if r == z3.sat:
            model = None
            if want_model:
                try:
                    model = s.model()
                except Exception:
                    model = None
            return 'refuted', label, time.time() - t0, model, None
        reasons.append(f"{label}:{s.reason_unknown()}")
        if n == 0:
            # arithmetic obligations buried under quantified hypotheses: retry with the
            # quantifier-free hypotheses only (dropping hypotheses is sound for `proved`;
            # a model found here proves nothing and is ignored)
            try:
                if _ground_attempt(ob, axioms, min(3000, max(500, timeout_ms * 0.2))):
                    return 'proved', 'z3(ground-hyps)', time.time() - t0, None, None
            except z3.Z3Exception:
                pass
            try:
                if _current_generation_attempt(ob, axioms, max(500, timeout_ms * 0.25)):
                    return 'proved', 'z3(ematch, current-generation hyps)', time.time() - t0, None, None
            except z3.Z3Exception:
                pass
            try:
                v = run_cvc5(first.to_smt2(), timeout_ms=max(1000, timeout_ms // 2))
                if v == 'unsat':
                    return 'proved', 'cvc5', time.time() - t0, None, None
                reasons.append(f"cvc5:{v}")
            except Exception as e:
                reasons.append(f"cvc5:{type(e).__name__}")
    d = os.environ.get('VERIF_DUMP')
    if d:
        os.makedirs(d, exist_ok=True)
        with open(os.path.join(d, ob.id.replace('/', '_').split('.')[-1] + '.smt2'), 'w') as f:
            f.write(first.to_smt2())
    return 'unknown', 'z3+cvc5', time.time() - t0, None, '; '.join(reasons)


def run_cvc5(smt2, timeout_ms=None):
    timeout_ms = timeout_ms or CVC5_TIMEOUT_MS
    if not os.path.exists(CVC5_BIN):
        return 'unavailable'
    with tempfile.NamedTemporaryFile('w', suffix='.smt2', delete=False) as f:
        f.write("(set-logic ALL)\n" + smt2)
        path = f.name
    try:
        p = subprocess.run([CVC5_BIN, '--tlimit', str(timeout_ms), path],
                           capture_output=True, text=True, timeout=timeout_ms / 1000 + 5)
        out = p.stdout.strip().split('\n')[0] if p.stdout.strip() else ''
        if out in ('unsat', 'sat', 'unknown'):
            return out
        if 'Parse Error' in out or 'error' in out.lower():
            return 'not-parsed-by-cvc5'
        return 'no-answer'
    except Exception:
        return 'error'
    finally:
        os.unlink(path)


def model_summary(model, ctx, limit=40):
    """readable rendering of the counter-model restricted to parameter constants"""
    if model is None:
        return None
    out = {}
    try:
        for d in model.decls():
            n = d.name()
            if '!' in n:
                base = n.split('!')[0]
                if base in ctx.contract.params or base == 'self':
                    out[n] = str(model[d])[:400]
            if len(out) >= limit:
                break
    except Exception:
        pass
    return out


def _name_of(k, ranks):
    from .values import _LITERALS
    for text, term in _LITERALS.items():
        pass
    return ranks.get(k, f"n{k}")


def concretize(model, v, depth=0, names=None):
    """python value of a symbolic value under a z3 model (best effort; None if not representable)"""
    ty = v.ty
    k = ty[0]
    ev = lambda t: model.eval(t, model_completion=True)
    try:
        if k == 'int':
            return ev(v.term).as_long()
        if k == 'name':
            n = ev(v.term).as_long()
            if names is not None:
                names.add(n)
            return ('__name__', n)
        if k == 'bool':
            return z3.is_true(ev(v.term))
        if k == 'real':
            r = ev(v.term)
            if z3.is_rational_value(r):
                return float(r.numerator_as_long()) / float(r.denominator_as_long())
            return float(r.approx(10).as_decimal(10).rstrip('?'))
        if k == 'none':
            return None
        if k == 'opt':
            if z3.is_true(ev(T.opt_is_none(ty, v.term))):
                return None
            return concretize(model, SymVal(ty[1], T.acc(ty, 'val')(v.term)), depth + 1, names)
        if k in ('list', 'arr'):
            n = ev(T.acc(ty, 'len')(v.term)).as_long()
            if n < 0 or n > 40:
                return None
            at = T.acc(ty, 'at')(v.term)
            out = [concretize(model, SymVal(ty[1], at[i]), depth + 1, names) for i in range(n)]
            return ('__arr__', out) if k == 'arr' else out
        if k == 'tuple':
            return tuple(concretize(model, SymVal(t, T.acc(ty, f'f{i}')(v.term)), depth + 1, names)
                         for i, t in enumerate(ty[1]))
        if k == 'rec':
            flds = T.RECORDS[ty[1]]
            if '__rest__' in flds:
                return None
            return ('__rec__', {f: concretize(model, SymVal(ft, T.acc(ty, f)(v.term)), depth + 1, names)
                                for f, ft in flds.items()})
    except Exception:
        return None
    return None


def _materialise(x, name_map):
    """second pass: names become strings that preserve the model's order, arrays numpy arrays"""
    from .native import Rec
    if isinstance(x, tuple) and len(x) == 2 and x[0] == '__name__':
        return name_map[x[1]]
    if isinstance(x, tuple) and len(x) == 2 and x[0] == '__arr__':
        import numpy as np
        vals = [_materialise(e, name_map) for e in x[1]]
        return np.array(vals)
    if isinstance(x, tuple) and len(x) == 2 and x[0] == '__rec__':
        return Rec(**{k: _materialise(e, name_map) for k, e in x[1].items()})
    if isinstance(x, list):
        return [_materialise(e, name_map) for e in x]
    if isinstance(x, tuple):
        return tuple(_materialise(e, name_map) for e in x)
    return x


def replay_model(c, ctx, model):
    """turn the counter-model into arguments of the REAL function and run the contract natively.
    returns dict(args=..., status=..., failures=[...]) or None when the inputs cannot be built"""
    from . import native
    from .values import _LITERALS
    if model is None or ctx is None or c.self_type:
        return None
    names = set()
    raw = {}
    for p in c.params:
        ref = ctx.entry.env.get(p)
        if ref is None:
            return None
        v = ctx.entry.cells.get(ref.cid)
        if v is None:
            return None
        val = concretize(model, v, names=names)
        if val is None and v.ty != T.NONE and v.ty[0] != 'opt':
            return None
        raw[p] = val
    # order-preserving naming; literals keep their text when the model gives them that value
    lit_vals = {}
    for text, term in _LITERALS.items():
        try:
            lit_vals[model.eval(term, model_completion=True).as_long()] = text
        except Exception:
            pass
    name_map = {}
    for rank, n in enumerate(sorted(names)):
        name_map[n] = lit_vals.get(n, f"n{rank:03d}")
    try:
        args = {p: _materialise(x, name_map) for p, x in raw.items()}
        fn = (c.native or {}).get('call') or native.resolve(c.qualname.split('#')[0])
        status, failures = native.run_case(c, fn, args, list(c.params), (c.native or {}).get('env'))
    except BaseException as e:      # noqa
        return dict(args=native.safe_repr(raw, 1500), status='replay-error',
                    failures=[], note=f"{type(e).__name__}: {e}")
    return dict(args=native.safe_repr(args, 1500), status=status,
                failures=[f.to_dict() for f in failures][:3])


def verify_function(c, registry=REGISTRY, timeout_ms=None):
    res = FunctionResult(c.qualname)
    res.mode = c.mode
    t0 = time.time()
    try:
        ctx, info, fn = generate(c, registry)
    except ContractError as e:
        res.status = 'contract-out-of-date'
        res.message = str(e)
        return res, None
    except Unsupported as e:
        res.status = 'unsupported'
        res.message = str(e)
        return res, None
    except VacuousContract as e:
        res.status = 'vacuous'
        res.message = str(e)
        return res, None
    except Exception as e:
        res.status = 'crash'
        res.message = f"{type(e).__name__}: {e}\n{traceback.format_exc()[-1500:]}"
        return res, None
    res.gen_time_s = time.time() - t0
    res.abstracted = list(ctx.abstracted)
    res.notes = list(ctx.notes)
    res.trusted_used = sorted(ctx.trusted_used)
    res.callees = sorted(ctx.callee_used)
    res.paths = ctx.paths_explored
    res.source_path = info['path']
    res.source_lines = (fn.lineno, getattr(fn, 'end_lineno', fn.lineno))
    axioms = literal_axioms() + list(ctx.axioms)
    t1 = time.time()
    retries_left = 4
    crosschecked = 0
    n_failed = 0
    for ob in ctx.obligations:
        budget = timeout_ms
        if n_failed >= 3:
            # the function has failed already; the remaining obligations only add detail to the
            # report: a fifth of the budget each
            budget = max(1500, (timeout_ms or Z3_TIMEOUT_MS) // 5)
        verdict, backend, dt, model, reason = solve_one(ob, axioms, budget,
                                                        first_opts=c.ghost.get('solver_first'))
        if verdict == 'unknown' and retries_left > 0:
            # undecided within the budget: one more attempt with four times the budget before the
            # obligation is reported (keeps verdicts stable when all cores are busy)
            retries_left -= 1
            v2, b2, dt2, model2, reason2 = solve_one(ob, axioms, (timeout_ms or Z3_TIMEOUT_MS) * 4,
                                                     first_opts=c.ghost.get('solver_first'))
            dt += dt2
            if v2 != 'unknown':
                verdict, backend, model, reason = v2, b2 + '(retry)', model2, reason2
        if verdict != 'proved':
            n_failed += 1
            # the function already has an obligation that is not discharged: retrying the others with
            # a larger budget cannot change the outcome of the run, only its duration
            retries_left = 0
        cross = None
        if verdict == 'proved' and backend.startswith('z3') and os.environ.get('VERIF_CROSSCHECK') == '1' \
                and crosschecked < 25:
            # thorough tier: second opinion of cvc5 on obligations z3 discharged (a `sat` is a checker error)
            crosschecked += 1
            try:
                cross = run_cvc5(_mk_solver(ob, axioms, 1000, {}).to_smt2(), timeout_ms=4000)
            except Exception:
                cross = 'error'
        res.obligations.append(dict(id=ob.id, kind=ob.kind, text=ob.text, line=ob.lineno, src=ob.src,
                                    verdict=verdict, backend=backend, time_s=round(dt, 4),
                                    model=model_summary(model, ctx), reason=reason, cvc5_cross=cross))
        if verdict == 'refuted' and model is not None and c.mode == 'full' and \
                not any(o.get('replay') for o in res.obligations):
            try:
                res.obligations[-1]['replay'] = replay_model(c, ctx, model)
            except BaseException as e:   # noqa
                res.obligations[-1]['replay'] = dict(status='replay-error', note=str(e)[:200], failures=[])
    res.solve_time_s = time.time() - t1
    return res, ctx
