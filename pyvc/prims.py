"""Calls: builtins, container methods, spec helpers, contracted callees, comprehensions."""
import ast
import z3

from . import types as T
from .values import (SymVal, Unsupported, fresh, fresh_name, const_int, const_real, const_bool,
                     NONEVAL, literal, wf, seq_len, seq_at, mk_seq, empty_seq, seq_append,
                     seq_store, dict_dom, dict_val, dict_card, mk_dict, empty_dict, dict_store,
                     dict_remove, set_has, set_card, mk_set, empty_set, set_add, set_remove,
                     membership_array, card_of, default_of)
from .engine import (Ref, State, is_num, to_real, to_int, truth, join_types, coerce,
                     values_equal)
from .symexec import (select, update, read_ref, write_ref, PendingRaise, DROPPED_CALLS,
                      MUTATORS)

INT_INFO = {
    'uint8': (0, 2**8 - 1), 'int8': (-2**7, 2**7 - 1), 'uint16': (0, 2**16 - 1),
    'int16': (-2**15, 2**15 - 1), 'uint32': (0, 2**32 - 1), 'int32': (-2**31, 2**31 - 1),
    'uint64': (0, 2**64 - 1), 'int64': (-2**63, 2**63 - 1), 'uint': (0, 2**64 - 1),
}
DTYPE_IDS = {n: i for i, n in enumerate(
    ['uint8', 'int8', 'uint16', 'int16', 'uint32', 'int32', 'uint64', 'int64', 'uint', 'int',
     'float', 'float32', 'float64', 'bool', 'float16'])}


def constant(q):
    """value of a qualified module-level constant, or None"""
    if q.startswith('numpy.') and q[6:] in DTYPE_IDS:
        v = const_int(1000 + DTYPE_IDS[q[6:]])
        v.meta = ('dtype', q[6:])
        return v
    if q == 'numpy.inf':
        raise Unsupported("np.inf")
    return None


# ---------------------------------------------------------------------------------------------
# sequences built from enumerations of sets (arbitrary order, duplicate free)
# ---------------------------------------------------------------------------------------------
def enumeration_of(state, cont, elem_ty=None, hint='enum'):
    """a duplicate-free list holding exactly the members of a set / the keys of a dict,
    in arbitrary order (sound for insertion order and for hash order)"""
    kt = cont.ty[1]
    r = fresh(T.TList(kt), hint)
    mem = membership_array(cont)
    n = seq_len(r)
    i, j = z3.Int(fresh_name('ei')), z3.Int(fresh_name('ej'))
    k = z3.Const(fresh_name('ek'), T.sort_of(kt))
    pos = z3.Function(fresh_name('pos'), T.sort_of(kt), z3.IntSort())
    state.assume(
        n == card_of(cont), n >= 0,
        z3.ForAll([i], z3.Implies(z3.And(0 <= i, i < n),
                                  z3.And(mem[seq_at(r, i)], pos(seq_at(r, i)) == i))),
        z3.ForAll([k], z3.Implies(mem[k], z3.And(0 <= pos(k), pos(k) < n, seq_at(r, pos(k)) == k))))
    return r


def sorted_perm_of(state, v, hint='sorted', reverse=False):
    """a sorted permutation of sequence v (bijection witnesses p / q)"""
    r = fresh(v.ty, hint)
    n = seq_len(v)
    p = z3.Function(fresh_name('perm'), z3.IntSort(), z3.IntSort())
    q = z3.Function(fresh_name('perm_inv'), z3.IntSort(), z3.IntSort())
    i, j = z3.Int(fresh_name('pi')), z3.Int(fresh_name('pj'))
    if v.ty[1] not in (T.INT, T.NAME, T.REAL):
        raise Unsupported(f"sort of {T.show(v.ty)}")
    le = (lambda a, b: a >= b) if reverse else (lambda a, b: a <= b)
    state.assume(
        seq_len(r) == n,
        z3.ForAll([i], z3.Implies(z3.And(0 <= i, i < n),
                                  z3.And(0 <= p(i), p(i) < n, q(p(i)) == i,
                                         seq_at(r, i) == seq_at(v, p(i))))),
        z3.ForAll([j], z3.Implies(z3.And(0 <= j, j < n),
                                  z3.And(0 <= q(j), q(j) < n, p(q(j)) == j))),
        # (implied by the two facts above; triggered by an element of v, so that membership
        # goals about the sorted sequence find their witness)
        z3.ForAll([j], z3.Implies(z3.And(0 <= j, j < n),
                                  z3.And(0 <= q(j), q(j) < n, seq_at(r, q(j)) == seq_at(v, j))),
                  patterns=[seq_at(v, j)]),
        z3.ForAll([i, j], z3.Implies(z3.And(0 <= i, i < j, j < n),
                                     le(seq_at(r, i), seq_at(r, j)))))
    return r


def to_list_value(ev, state, v, node, hint='list'):
    """list(x)"""
    k = v.ty[0]
    if k == 'list':
        return SymVal(v.ty, v.term)       # a copy has the same value
    if k == 'arr':
        return SymVal(T.TList(v.ty[1]), v.term)
    if k in ('dict', 'set'):
        return enumeration_of(state, v, hint=hint)
    if k == 'tuple':
        ty = v.ty[1][0] if v.ty[1] else T.INT
        out = empty_seq(T.TList(ty))
        for i in range(len(v.ty[1])):
            out = seq_append(out, coerce(select(v, ('fld', i)), ty).term)
        return out
    raise Unsupported(f"list() of {T.show(v.ty)}")


def to_set_value(ev, state, v, node):
    k = v.ty[0]
    if k == 'set':
        return SymVal(v.ty, v.term)
    if k == 'dict':
        r = fresh(T.TSet(v.ty[1]), 'keyset')
        kk = z3.Const(fresh_name('k'), T.sort_of(v.ty[1]))
        state.assume(z3.ForAll([kk], set_has(r)[kk] == dict_dom(v)[kk]),
                     set_card(r) == dict_card(v), *wf(r))
        return r
    if k in ('list', 'arr'):
        from .values import canon
        r = canon(T.TSet(v.ty[1]), 'setof', v.term)     # set(xs) is a function of xs
        kk = z3.Const(fresh_name('k'), T.sort_of(v.ty[1]))
        i = z3.Int(fresh_name('i'))
        w = z3.Function(fresh_name('wit'), T.sort_of(v.ty[1]), z3.IntSort())
        n = seq_len(v)
        state.assume(
            z3.ForAll([i], z3.Implies(z3.And(0 <= i, i < n), set_has(r)[seq_at(v, i)])),
            z3.ForAll([kk], z3.Implies(set_has(r)[kk],
                                       z3.And(0 <= w(kk), w(kk) < n, seq_at(v, w(kk)) == kk))),
            set_card(r) <= n, z3.Implies(n > 0, set_card(r) >= 1), *wf(r))
        if v.ty[1] in (T.INT, T.NAME, T.BOOL, T.REAL):
            # len(set(xs)) == len(xs) exactly when xs has no repeated element
            i2 = z3.Int(fresh_name('i2'))
            state.assume((set_card(r) == n) == z3.ForAll(
                [i, i2], z3.Implies(z3.And(0 <= i, i < i2, i2 < n), seq_at(v, i) != seq_at(v, i2))))
        return r
    raise Unsupported(f"set() of {T.show(v.ty)}")


# ---------------------------------------------------------------------------------------------
# comprehensions (execution level: map / filter over lists, ranges, sets)
# ---------------------------------------------------------------------------------------------
def _single_gen(node):
    if len(node.generators) != 1:
        raise Unsupported("nested comprehension")
    g = node.generators[0]
    if g.is_async:
        raise Unsupported("async comprehension")
    return g


def _comp_source(ev, state, g):
    """returns (n, bind(i) -> dict name->SymVal) for index-based sources, else raises"""
    it = g.iter
    if isinstance(it, ast.Call) and isinstance(it.func, ast.Name) and it.func.id == 'range':
        args = [ev.eval(state, a) for a in it.args]
        if len(args) == 1:
            lo, hi = z3.IntVal(0), to_int(args[0])
        elif len(args) == 2:
            lo, hi = to_int(args[0]), to_int(args[1])
        elif len(args) == 3 and args[2].meta == ('const', 1):
            lo, hi = to_int(args[0]), to_int(args[1])
        else:
            raise Unsupported("range step in comprehension")
        n = z3.If(hi > lo, hi - lo, 0)
        if not isinstance(g.target, ast.Name):
            raise Unsupported("comprehension target")
        return n, lambda i: {g.target.id: SymVal(T.INT, lo + i)}
    if isinstance(it, ast.Call) and isinstance(it.func, ast.Name) and it.func.id == 'enumerate':
        seq = ev.eval(state, it.args[0])
        if seq.ty[0] not in ('list', 'arr'):
            raise Unsupported("enumerate over non-sequence in comprehension")
        t = g.target
        if not (isinstance(t, ast.Tuple) and len(t.elts) == 2 and all(isinstance(e, ast.Name) for e in t.elts)):
            raise Unsupported("enumerate target")
        return seq_len(seq), lambda i: {t.elts[0].id: SymVal(T.INT, i),
                                        t.elts[1].id: SymVal(seq.ty[1], seq_at(seq, i))}
    if isinstance(it, ast.Call) and isinstance(it.func, ast.Name) and it.func.id == 'zip':
        seqs = [ev.eval(state, a) for a in it.args]
        if not all(s.ty[0] in ('list', 'arr') for s in seqs):
            raise Unsupported("zip over non-sequences in comprehension")
        t = g.target
        if not (isinstance(t, ast.Tuple) and len(t.elts) == len(seqs) and all(isinstance(e, ast.Name) for e in t.elts)):
            raise Unsupported("zip target")
        n = seq_len(seqs[0])
        for s in seqs[1:]:
            n = z3.If(seq_len(s) < n, seq_len(s), n)
        return n, lambda i: {e.id: SymVal(s.ty[1], seq_at(s, i)) for e, s in zip(t.elts, seqs)}
    src = ev.eval(state, it)
    if src.ty[0] in ('dict', 'set'):
        src = enumeration_of(state, src, hint='compsrc')
    if src.ty[0] in ('list', 'arr'):
        t = g.target
        if isinstance(t, ast.Name):
            return seq_len(src), lambda i: {t.id: SymVal(src.ty[1], seq_at(src, i))}
        if isinstance(t, ast.Tuple) and src.ty[1][0] == 'tuple':
            def b(i):
                e = SymVal(src.ty[1], seq_at(src, i))
                return {x.id: select(e, ('fld', k)) for k, x in enumerate(t.elts)}
            return seq_len(src), b
    raise Unsupported(f"comprehension over {T.show(src.ty)}")


def _eval_with(ev, state, bindings, expr):
    saved = dict(state.ghost)
    sm = ev.ctx.spec_mode
    # element expressions are evaluated under a universally quantified index: obligations
    # inside them are generated through a symbolic representative instead
    state.ghost.update(bindings)
    try:
        ev.ctx.spec_mode += 1
        return ev.eval(state, expr)
    finally:
        ev.ctx.spec_mode = sm
        state.ghost = saved


def _fresh_decls(exprs, mark):
    """uninterpreted symbols named 'hint!N' with N > mark occurring in exprs (created after mark)"""
    seen, out, todo = set(), {}, list(exprs)
    while todo:
        e = todo.pop()
        if e.get_id() in seen:
            continue
        seen.add(e.get_id())
        if z3.is_quantifier(e):
            todo.append(e.body())
        elif z3.is_app(e):
            d = e.decl()
            if d.kind() == z3.Z3_OP_UNINTERPRETED:
                nm = d.name()
                k = nm.rfind('!')
                if k >= 0 and not nm.startswith('lit!') and nm[k + 1:].isdigit() and int(nm[k + 1:]) > mark:
                    out[nm] = d
            todo.extend(e.children())
    return list(out.values())


def _eval_elems(ev, state, i, n, bind, exprs):
    """evaluate the element expression(s) of a comprehension under the quantified index i.

    Values created while evaluating the element (results of primitives: fresh constants /
    functions together with their defining facts) depend on the index.  They are lifted to
    functions of i and their defining facts are quantified over the index range (skolemisation;
    the facts hold for every index value).  Without this one constant would stand for the
    values of all elements, and its defining fact would speak about a free index."""
    mark = int(fresh_name('mark').rsplit('!', 1)[1])
    pc0 = len(state.pc)
    vals = [_eval_with(ev, state, bind(i), e) for e in exprs]
    new = list(state.pc[pc0:])
    decls = _fresh_decls(new + [v.term for v in vals], mark)
    if not new and not decls:
        return vals
    del state.pc[pc0:]
    subs_c, subs_f = [], []
    for d in decls:
        dom = [d.domain(k) for k in range(d.arity())]
        nd = z3.Function(d.name() + '@', z3.IntSort(), *(dom + [d.range()]))
        if d.arity() == 0:
            subs_c.append((d(), nd(i)))
        else:
            subs_f.append((d, nd(i, *[z3.Var(k, dom[k]) for k in range(d.arity())])))

    def lift(t):
        if subs_f:
            t = z3.substitute_funs(t, *subs_f)
        if subs_c:
            t = z3.substitute(t, *subs_c)
        return t
    if new:
        state.assume(z3.ForAll([i], z3.Implies(z3.And(0 <= i, i < n), z3.And(*[lift(f) for f in new]))))
    return [SymVal(v.ty, lift(v.term)) for v in vals]


def _check_elements(ev, state, n, bind, exprs, conds):
    """safety obligations of the element expression for a symbolic representative index"""
    if ev.ctx.spec_mode:
        return
    i0 = z3.Int(fresh_name('rep'))
    saved = dict(state.ghost)
    s2 = state.copy()
    s2.assume(0 <= i0, i0 < n)
    s2.ghost.update(bind(i0))
    # evaluate in non-spec mode on the copy so that obligations are emitted under rep's guard
    sm = ev.ctx.spec_mode
    names = list(bind(i0).keys())
    for nm, val in bind(i0).items():
        s2.bind(nm, val)
        s2.ghost.pop(nm, None)
    for c in conds:
        t = truth(ev.eval(s2, c))
        s2.assume(t)
    for e in exprs:
        ev.eval(s2, e)


def list_comp(ev, state, node):
    g = _single_gen(node)
    n, bind = _comp_source(ev, state, g)
    _check_elements(ev, state, n, bind, [node.elt], g.ifs)
    i = z3.Int(fresh_name('lc'))
    elt, *cvals = _eval_elems(ev, state, i, n, bind, [node.elt] + list(g.ifs))
    if not g.ifs:
        r = fresh(T.TList(elt.ty), 'lcomp')
        state.assume(seq_len(r) == n,
                     z3.ForAll([i], z3.Implies(z3.And(0 <= i, i < n), seq_at(r, i) == elt.term)),
                     *wf(r))
        return r
    # filter form: strictly increasing source positions src(j), complete
    cond = z3.And(*[truth(c) for c in cvals])
    r = fresh(T.TList(elt.ty), 'lfilt')
    src = z3.Function(fresh_name('src'), z3.IntSort(), z3.IntSort())
    dst = z3.Function(fresh_name('dst'), z3.IntSort(), z3.IntSort())
    j, j2 = z3.Int(fresh_name('fj')), z3.Int(fresh_name('fk'))
    m = seq_len(r)
    elt_j = z3.substitute(elt.term, (i, src(j)))
    cond_j = z3.substitute(cond, (i, src(j)))
    state.assume(
        0 <= m, m <= n,
        z3.ForAll([j], z3.Implies(z3.And(0 <= j, j < m),
                                  z3.And(0 <= src(j), src(j) < n, cond_j, dst(src(j)) == j,
                                         seq_at(r, j) == elt_j))),
        z3.ForAll([j, j2], z3.Implies(z3.And(0 <= j, j < j2, j2 < m), src(j) < src(j2))),
        z3.ForAll([i], z3.Implies(z3.And(0 <= i, i < n, cond),
                                  z3.And(0 <= dst(i), dst(i) < m, src(dst(i)) == i))),
        *wf(r))
    return r


def dict_comp(ev, state, node):
    g = _single_gen(node)
    if g.ifs:
        raise Unsupported("filtered dict comprehension")
    n, bind = _comp_source(ev, state, g)
    _check_elements(ev, state, n, bind, [node.key, node.value], [])
    i = z3.Int(fresh_name('dc'))
    kv, vv = _eval_elems(ev, state, i, n, bind, [node.key, node.value])
    r = fresh(T.TDict(kv.ty, vv.ty), 'dcomp')
    last = z3.Function(fresh_name('last'), T.sort_of(kv.ty), z3.IntSort())
    k = z3.Const(fresh_name('dk'), T.sort_of(kv.ty))
    i2 = z3.Int(fresh_name('dc2'))
    key_i2 = z3.substitute(kv.term, (i, i2))
    val_last = z3.substitute(vv.term, (i, last(k)))
    key_last = z3.substitute(kv.term, (i, last(k)))
    # "last one wins": val[k] = value at the last index whose key is k
    state.assume(
        z3.ForAll([i], z3.Implies(z3.And(0 <= i, i < n), dict_dom(r)[kv.term])),
        z3.ForAll([k], z3.Implies(dict_dom(r)[k],
                                  z3.And(0 <= last(k), last(k) < n, key_last == k,
                                         dict_val(r)[k] == val_last))),
        z3.ForAll([k, i2], z3.Implies(z3.And(dict_dom(r)[k], 0 <= i2, i2 < n, key_i2 == k),
                                      i2 <= last(k))),
        dict_card(r) <= n, z3.Implies(n > 0, dict_card(r) >= 1), *wf(r))
    return r


def set_comp(ev, state, node):
    g = _single_gen(node)
    if g.ifs:
        raise Unsupported("filtered set comprehension")
    n, bind = _comp_source(ev, state, g)
    _check_elements(ev, state, n, bind, [node.elt], [])
    i = z3.Int(fresh_name('sc'))
    e, = _eval_elems(ev, state, i, n, bind, [node.elt])
    r = fresh(T.TSet(e.ty), 'scomp')
    w = z3.Function(fresh_name('wit'), T.sort_of(e.ty), z3.IntSort())
    k = z3.Const(fresh_name('sk'), T.sort_of(e.ty))
    e_w = z3.substitute(e.term, (i, w(k)))
    state.assume(
        z3.ForAll([i], z3.Implies(z3.And(0 <= i, i < n), set_has(r)[e.term])),
        z3.ForAll([k], z3.Implies(set_has(r)[k], z3.And(0 <= w(k), w(k) < n, e_w == k))),
        set_card(r) <= n, *wf(r))
    return r


# ---------------------------------------------------------------------------------------------
# calls
# ---------------------------------------------------------------------------------------------
def call_name(ev, node):
    """(kind, name): ('builtin'|'qualified'|'method', name)"""
    f = node.func
    if isinstance(f, ast.Name):
        imp = ev.ctx.module['imports']
        if f.id in imp:
            return 'qualified', imp[f.id]
        local = ev.ctx.module.get('functions', {})
        if f.id in local:
            return 'qualified', ev.ctx.module['name'] + '.' + f.id
        return 'builtin', f.id
    if isinstance(f, ast.Attribute):
        q = ev.qualified(f)
        if q is not None:
            return 'qualified', q
        return 'method', f.attr
    return 'unknown', None


def _count_call(ev, state, node, name):
    """ghost counters: contract.ghost['count_calls'] = {last name component: ghost Int variable}"""
    cc = ev.ctx.contract.ghost.get('count_calls') if ev.ctx.contract else None
    if not cc or ev.ctx.spec_mode or not name:
        return
    g = cc.get(name.split('.')[-1])
    if g is None:
        return
    ref = state.env.get(g)
    if ref is not None:
        v = read_ref(state, ref)
        write_ref(state, ref, SymVal(T.INT, v.term + 1))


def _capture_call(ev, state, node, name):
    """contract.ghost['capture_calls'] = [last name components]: the keyword arguments of such calls
    (and, for multiprocessing.Process, the entries of its `kwargs` dict literal, keyed by the target's
    name) are recorded as ghost values readable with arg_of('callee', 'keyword')"""
    cap = ev.ctx.contract.ghost.get('capture_calls') if ev.ctx.contract else None
    if ev.ctx.contract and ev.ctx.contract.ghost.get('forward'):
        cap = list(cap or []) + list(ev.ctx.contract.ghost['forward'].keys())
    if not cap or ev.ctx.spec_mode or not name:
        return
    last = name.split('.')[-1]
    pairs = []
    if last == 'Process':
        target = None
        kwdict = None
        for k in node.keywords:
            if k.arg == 'target':
                target = k.value.id if isinstance(k.value, ast.Name) else \
                    (k.value.attr if isinstance(k.value, ast.Attribute) else None)
            if k.arg == 'kwargs' and isinstance(k.value, ast.Dict):
                kwdict = k.value
        if target in cap and kwdict is not None:
            for kk, vv in zip(kwdict.keys, kwdict.values):
                if isinstance(kk, ast.Constant) and isinstance(kk.value, str):
                    pairs.append((target, kk.value, vv))
    elif last in cap:
        for k in node.keywords:
            if k.arg is not None:
                pairs.append((last, k.arg, k.value))
        if node.args:
            # positional arguments: bound through the callee's own signature (read from its source)
            try:
                from .contracts import find_function
                fn_callee = find_function(name)[1]
                params = [a.arg for a in fn_callee.args.posonlyargs + fn_callee.args.args]
                for pname, anode in zip(params, node.args):
                    pairs.append((last, pname, anode))
            except Exception:
                pass
    got = {}
    for fname, kw, vnode in pairs:
        try:
            v = ev.eval(state, vnode)
        except Unsupported:
            v = fresh(T.OPAQUE, 'uncaptured')
        state.ghost[f'__arg__{fname}__{kw}'] = v
        got[(fname, kw)] = (v, vnode)
    # contract.ghost['forward'] = {callee: [settings]}: at every call of callee, each setting must be
    # passed by keyword and be the caller's parameter of the same name, unchanged since entry
    fw = ev.ctx.contract.ghost.get('forward') or {}
    for fname in {f for f, _, _ in pairs} | ({last} if last in fw else set()):
        for setting in fw.get(fname, ()):
            ent = ev.ctx.entry
            ref = ent.env.get(setting) if ent is not None else None
            if ref is None:
                continue
            entry_val = ent.cells[ref.cid]
            if (fname, setting) not in got:
                ev.ctx.oblige(state, z3.BoolVal(False), 'forward', node,
                              f"{fname} is called with keyword {setting}")
                continue
            v, vnode = got[(fname, setting)]
            try:
                goal = values_equal(v, entry_val)
            except Unsupported:
                goal = z3.BoolVal(False)
            ev.ctx.oblige(state, goal, 'forward', node,
                          f"{fname} receives {setting} = the caller's parameter {setting}, unchanged",
                          assume=False)


def s_arg_of(ev, state, node):
    fname, kw = node.args[0].value, node.args[1].value
    v = state.ghost.get(f'__arg__{fname}__{kw}')
    if v is None:
        # the call (or the keyword) was not seen on this path: an arbitrary value, so that a clause
        # about it cannot be discharged
        return fresh(T.OPAQUE, 'no_such_argument')
    return v


def call(ev, state, node):
    ctx = ev.ctx
    kind, name = call_name(ev, node)
    _count_call(ev, state, node, name)
    _capture_call(ev, state, node, name)
    if kind == 'builtin':
        h = BUILTINS.get(name)
        if h is not None:
            return h(ev, state, node)
        if ctx.spec_mode or name in SPEC_FUNCS:
            h = SPEC_FUNCS.get(name)
            if h is not None:
                return h(ev, state, node)
        if name in EXC_NAMES:
            return fresh(T.OPAQUE, 'exc')
        return ev.unsupported(state, node, f"call to {name}")
    if kind == 'qualified':
        if name in DROPPED_CALLS or name.split('.')[-1] in ('print_timing', 'update_timer'):
            return NONEVAL
        c = ctx.registry.get(name)
        if c is not None and c is not ctx.contract or (c is not None and c is ctx.contract):
            if c is not None:
                return call_contract(ev, state, node, c, name)
        from . import numpy_prims
        h = numpy_prims.QUALIFIED.get(name)
        if h is not None:
            ctx.trusted_used.add(name)
            return h(ev, state, node)
        h = QUALIFIED.get(name)
        if h is not None:
            ctx.trusted_used.add(name)
            return h(ev, state, node)
        return unknown_call(ev, state, node, name)
    if kind == 'method':
        return method_call(ev, state, node, name)
    return ev.unsupported(state, node, "call of computed function")


EXC_NAMES = {'RuntimeError', 'ValueError', 'KeyError', 'IndexError', 'TypeError',
             'StopIteration', 'NotImplementedError', 'Exception', 'FileNotFoundError'}


def unknown_call(ev, state, node, name):
    """call of a function without contract: abstracted in lenient mode, error otherwise"""
    ctx = ev.ctx
    if not ctx.lenient or ctx.spec_mode:
        raise Unsupported(f"call to {name} (no contract, not a modelled primitive) at line {node.lineno}")
    # evaluate arguments (for their effects on obligations); tracked mutable args are havocked
    # unless the contract lists the callee as not mutating its arguments (assumed, reported)
    havoc = []
    pure = set(ctx.contract.ghost.get('pure_calls', ()))
    is_pure = name in pure or (name or '').split('.')[-1] in pure
    for a in list(node.args) + [k.value for k in node.keywords]:
        try:
            v = ev.eval(state, a)
        except Unsupported:
            continue
        r = ev.eval_ref(state, a)
        if r is not None and T.is_mutable(read_ref(state, r).ty) and not is_pure:
            havoc.append((r, a))
    for r, a in havoc:
        old = read_ref(state, r)
        nv = fresh(old.ty, 'havoc')
        state.assume(*wf(nv))
        write_ref(state, r, nv)
        ctx.notes.append(f"L{node.lineno}: mutable argument {ast.unparse(a)} of unmodelled call "
                         f"{name} is havocked")
    return ev.opaque(state, node, f"unmodelled call {name}")


def bind_args(fn_node, node, is_method=False):
    """map callee parameter name -> argument AST (or None when the default applies)"""
    a = fn_node.args
    params = [x.arg for x in a.posonlyargs + a.args]
    if is_method and params and params[0] in ('self', 'cls'):
        params = params[1:]
    out = {}
    for p, arg in zip(params, node.args):
        out[p] = arg
    if len(node.args) > len(params):
        raise Unsupported("too many positional arguments")
    for kw in node.keywords:
        if kw.arg is None:
            raise Unsupported("**kwargs call")
        out[kw.arg] = kw.value
    defaults = {}
    pos_defaults = a.defaults
    allp = [x.arg for x in a.posonlyargs + a.args]
    for p, d in zip(allp[len(allp) - len(pos_defaults):], pos_defaults):
        defaults[p] = d
    for p, d in zip([x.arg for x in a.kwonlyargs], a.kw_defaults):
        if d is not None:
            defaults[p] = d
    for p in params + [x.arg for x in a.kwonlyargs]:
        if p not in out:
            out[p] = defaults.get(p)
    return out


def call_contract(ev, state, node, c, name, receiver=None):
    """modular call: assert requires, havoc mutated arguments, assume ensures"""
    ctx = ev.ctx
    ctx.callee_used.add(name)
    fn_node = c.fn_node()
    argmap = bind_args(fn_node, node, is_method=receiver is not None)
    spec = State()
    spec.pc = state.pc          # shared list: assumptions made while evaluating go to the caller
    spec.cells = state.cells
    pre_vals = {}
    refs = {}
    if receiver is not None:
        rv, rref = receiver
        pre_vals['self'] = rv
        refs['self'] = rref
    for p, arg in argmap.items():
        pty = c.param_type(p)
        if arg is None:
            if pty is None:
                continue
            raise Unsupported(f"default argument for {p} of {name} without value")
        v = ev.eval(state, arg)
        if pty is not None:
            if v.ty[0] == 'opt' and pty[0] not in ('opt', 'opaque'):
                # an optional passed where the callee's contract wants a value: not-None is an
                # obligation at the call site (path conditions such as `x is not None` discharge it)
                ctx.oblige(state, z3.Not(T.opt_is_none(v.ty, v.term)), 'TypeError', node,
                           f"argument {p} of {name} is not None")
                v = select(v, ('some',))
            v = coerce(v, pty)
        pre_vals[p] = v
        refs[p] = ev.eval_ref(state, arg)
    # volatile fields (e.g. Process.exitcode): what the callee observes is not what the
    # caller last saw; only the environment assumptions of the callee constrain it
    for p, fields in c.volatile.items():
        if p in pre_vals:
            pre_vals[p] = volatile_view(state, pre_vals[p], fields)
    for p, v in pre_vals.items():
        spec.ghost[p] = v
    # ghost variables the callee declares (contract ghost['vars']) and the caller declares under
    # the same name are shared: visible to the callee's clauses, havocked by the call, constrained
    # by its ensures (a caller that does not declare them cannot use such a callee's contract)
    shared_ghost = {}
    for gname in (c.ghost.get('vars') or {}):
        if gname in state.env and gname not in pre_vals and not ctx.spec_mode:
            shared_ghost[gname] = state.env[gname]
            spec.ghost[gname] = read_ref(state, state.env[gname])
    old_ghost = dict(spec.ghost)
    for text, expr in c.parsed('env_assumes'):
        ctx.spec_mode += 1
        try:
            state.assume(truth(ev.eval(spec, expr)))
        finally:
            ctx.spec_mode -= 1
    # requires
    for text, expr in c.parsed('requires'):
        ctx.spec_mode += 1
        try:
            g = truth(ev.eval(spec, expr))
        finally:
            ctx.spec_mode -= 1
        ctx.oblige(state, g, 'requires', node, f"{name} requires {text}")
    # havoc mutated
    post_vals = dict(pre_vals)
    havoc_refs = []
    for p in c.mutates:
        if p not in pre_vals:
            continue
        nv = fresh(pre_vals[p].ty, 'post_' + p)
        state.assume(*wf(nv))
        post_vals[p] = nv
        if refs.get(p) is not None:
            havoc_refs.append((refs[p], pre_vals[p].ty))
        elif T.is_mutable(pre_vals[p].ty) and not ctx.spec_mode:
            ctx.notes.append(f"L{node.lineno}: mutated argument {p} of {name} is a temporary")
    # raises
    raise_bools = []
    for exc, (mode, text, expr) in c.parsed_raises().items():
        ctx.spec_mode += 1
        try:
            cond = truth(ev.eval(spec, expr)) if expr is not None else z3.BoolVal(True)
        finally:
            ctx.spec_mode -= 1
        b = z3.Bool(fresh_name('raised_' + exc))
        if mode == 'iff':
            facts = [b == cond]
        else:
            facts = [z3.Implies(b, cond)]
        ctx.pending.append(PendingRaise(exc, facts + [b], [r for r, _ in havoc_refs]))
        raise_bools.append((b, facts))
    for b, facts in raise_bools:
        state.assume(*facts)
        state.assume(z3.Not(b))
    # result
    rty = c.return_type()
    if c.returns_alias and c.returns_alias in post_vals:
        result = post_vals[c.returns_alias]
    elif rty is None or rty == T.NONE:
        result = NONEVAL
    else:
        result = fresh(rty, 'ret_' + name.split('.')[-1])
        state.assume(*wf(result))
    # ensures
    post = State()
    post.pc = state.pc
    post.cells = state.cells
    post.ghost = dict(post_vals)
    for gname, gref in shared_ghost.items():
        nv = fresh(read_ref(state, gref).ty, 'post_' + gname)
        state.assume(*wf(nv))
        post.ghost[gname] = nv
    post.ghost['result'] = result
    post.ghost['__old__'] = old_ghost
    for text, expr in c.parsed('ensures'):
        ctx.spec_mode += 1
        try:
            g = truth(ev.eval(post, expr))
        finally:
            ctx.spec_mode -= 1
        state.assume(g)
    # write back mutated arguments
    for p in c.mutates:
        if p in refs and refs[p] is not None:
            write_ref(state, refs[p], post_vals[p])
    for gname, gref in shared_ghost.items():
        write_ref(state, gref, post.ghost[gname])
    if c.returns_alias and refs.get(c.returns_alias) is not None:
        result = SymVal(result.ty, result.term, ('alias', refs[c.returns_alias]))
    return result


def volatile_view(state, v, fields):
    """a value equal to v except for the named (volatile) record fields of its elements"""
    ty = v.ty
    if ty[0] in ('list', 'arr') and ty[1][0] == 'rec':
        r = fresh(ty, 'volatile')
        i = z3.Int(fresh_name('vi'))
        same = [T.acc(ty[1], f)(seq_at(r, i)) == T.acc(ty[1], f)(seq_at(v, i))
                for f in T.RECORDS[ty[1][1]] if f not in fields]
        state.assume(seq_len(r) == seq_len(v),
                     z3.ForAll([i], z3.Implies(z3.And(0 <= i, i < seq_len(v)), z3.And(*same)))
                     if same else z3.BoolVal(True))
        return r
    if ty[0] == 'dict' and ty[2][0] == 'rec':
        r = fresh(ty, 'volatile')
        k = z3.Const(fresh_name('vk'), T.sort_of(ty[1]))
        same = [T.acc(ty[2], f)(dict_val(r)[k]) == T.acc(ty[2], f)(dict_val(v)[k])
                for f in T.RECORDS[ty[2][1]] if f not in fields]
        state.assume(dict_card(r) == dict_card(v),
                     z3.ForAll([k], z3.And(dict_dom(r)[k] == dict_dom(v)[k],
                                           z3.Implies(dict_dom(v)[k], z3.And(*same) if same else z3.BoolVal(True)))))
        return r
    raise Unsupported(f"volatile view of {T.show(ty)}")


# ---- builtins ---------------------------------------------------------------------------------
def _args(ev, state, node):
    return [ev.eval(state, a) for a in node.args]


def b_len(ev, state, node):
    v = _args(ev, state, node)[0]
    if v.ty[0] == 'opt':
        ev.ctx.oblige(state, z3.Not(T.opt_is_none(v.ty, v.term)), 'TypeError', node, 'len of None')
        v = select(v, ('some',))
    k = v.ty[0]
    if k in ('list', 'arr'):
        return SymVal(T.INT, seq_len(v))
    if k in ('dict', 'set'):
        return SymVal(T.INT, card_of(v))
    if k == 'tuple':
        return const_int(len(v.ty[1]))
    if k == 'arr2':
        return SymVal(T.INT, T.acc(v.ty, 'n0')(v.term))
    if k == 'rec' and '__rest__' in T.RECORDS[v.ty[1]]:
        rest = select(v, ('fld', '__rest__'))
        return SymVal(T.INT, dict_card(rest) + len(T.RECORDS[v.ty[1]]) - 1)
    if k == 'name':
        # len of a string: uninterpreted, exact for literals, additive over `+` (values.strlen)
        from .values import strlen
        if v.meta and v.meta[0] == 'const' and isinstance(v.meta[1], str):
            return const_int(len(v.meta[1]))
        return SymVal(T.INT, strlen(v.term))
    raise Unsupported(f"len of {T.show(v.ty)}")


def b_minmax(which):
    def h(ev, state, node):
        vals = _args(ev, state, node)
        if len(vals) == 1:
            from . import numpy_prims
            return numpy_prims.reduce_minmax(ev, state, vals[0], which, node)
        ty = vals[0].ty
        for v in vals[1:]:
            ty = join_types(ty, v.ty)
        if ty not in (T.INT, T.REAL):
            raise Unsupported(f"{which} over {T.show(ty) if ty else 'mixed'}")
        if all(v.meta and v.meta[0] == 'const' for v in vals):
            f = min if which == 'min' else max
            r = f(v.meta[1] for v in vals)
            return const_int(r) if ty == T.INT else const_real(r)
        r = coerce(vals[0], ty).term
        for v in vals[1:]:
            t = coerce(v, ty).term
            r = z3.If(t < r, t, r) if which == 'min' else z3.If(t > r, t, r)
        return SymVal(ty, r)
    return h


def b_abs(ev, state, node):
    v = _args(ev, state, node)[0]
    if v.ty == T.REAL:
        return SymVal(T.REAL, z3.If(v.term < 0, -v.term, v.term))
    t = to_int(v)
    return SymVal(T.INT, z3.If(t < 0, -t, t))


def b_list(ev, state, node):
    if not node.args:
        v = empty_seq(T.TList(T.INT))
        v.meta = ('empty',)
        return v
    a = node.args[0]
    if isinstance(a, ast.Call) and isinstance(a.func, ast.Attribute) and a.func.attr in ('keys',) \
            and not a.args:
        base = ev.eval(state, a.func.value)
        if base.ty[0] == 'dict':
            return enumeration_of(state, base, hint='keys')
    v = ev.eval(state, a)
    return to_list_value(ev, state, v, node)


def b_set(ev, state, node):
    if not node.args:
        v = empty_set(T.TSet(T.NAME))
        v.meta = ('empty',)
        return v
    v = ev.eval(state, node.args[0])
    return to_set_value(ev, state, v, node)


def b_dict(ev, state, node):
    if not node.args and not node.keywords:
        v = empty_dict(T.TDict(T.NAME, T.INT))
        v.meta = ('empty',)
        return v
    raise Unsupported("dict(...) with arguments")


def b_sorted(ev, state, node):
    v = ev.eval(state, node.args[0])
    if v.ty[0] in ('dict', 'set'):
        v = enumeration_of(state, v)
    if v.ty[0] == 'arr':
        v = SymVal(T.TList(v.ty[1]), v.term)
    if node.keywords:
        raise Unsupported("sorted with key/reverse")
    return sorted_perm_of(state, v)


def b_int(ev, state, node):
    v = _args(ev, state, node)[0]
    if v.ty in (T.INT, T.BOOL):
        return SymVal(T.INT, to_int(v))
    if v.ty == T.REAL:
        # truncation toward zero
        t = v.term
        return SymVal(T.INT, z3.If(t >= 0, z3.ToInt(t), -z3.ToInt(-t)))
    raise Unsupported(f"int() of {T.show(v.ty)}")


def b_float(ev, state, node):
    v = _args(ev, state, node)[0]
    return SymVal(T.REAL, to_real(v))


def b_str(ev, state, node):
    v = _args(ev, state, node)[0]
    if v.ty == T.NAME:
        return v
    return fresh(T.NAME, 'str')


def b_bool(ev, state, node):
    v = _args(ev, state, node)[0]
    return SymVal(T.BOOL, truth(v))


def b_isinstance(ev, state, node):
    v = ev.eval(state, node.args[0])
    tn = node.args[1]
    names = []
    if isinstance(tn, ast.Name):
        names = [tn.id]
    elif isinstance(tn, ast.Tuple):
        names = [e.id for e in tn.elts if isinstance(e, ast.Name)]
    elif isinstance(tn, ast.Attribute):
        names = [ast.unparse(tn)]
    k = v.ty[0]
    if k == 'opaque':
        return SymVal(T.BOOL, z3.Bool(fresh_name('isinst')))
    table = {'list': ['list'], 'dict': ['dict'], 'set': ['set'], 'name': ['str'],
             'int': ['int', 'numbers.Integral', 'numbers.Number'], 'real': ['float', 'numbers.Number'],
             'bool': ['bool', 'int'], 'tuple': ['tuple'], 'arr': ['np.ndarray', 'numpy.ndarray'],
             'arr2': ['np.ndarray', 'numpy.ndarray'], 'none': [], 'rec': []}
    if k == 'rec':
        raise Unsupported("isinstance of record")
    if k == 'opt':
        raise Unsupported("isinstance of optional")
    return const_bool(any(n in table.get(k, []) for n in names))


def b_range(ev, state, node):
    args = _args(ev, state, node)
    if len(args) == 1:
        lo, hi = z3.IntVal(0), to_int(args[0])
    elif len(args) == 2:
        lo, hi = to_int(args[0]), to_int(args[1])
    else:
        raise Unsupported("range with step as a value")
    r = fresh(T.TList(T.INT), 'range')
    i = z3.Int(fresh_name('ri'))
    n = z3.If(hi > lo, hi - lo, 0)
    state.assume(seq_len(r) == n,
                 z3.ForAll([i], z3.Implies(z3.And(0 <= i, i < n), seq_at(r, i) == lo + i)))
    return r


def b_round(ev, state, node):
    from . import numpy_prims
    return numpy_prims.np_round(ev, state, node)


def b_sum(ev, state, node):
    raise Unsupported("sum()")


def b_all_any(kind):
    def h(ev, state, node):
        a = node.args[0]
        if isinstance(a, ast.GeneratorExp):
            return SymVal(T.BOOL, ev.quantify(state, a, kind))
        raise Unsupported(f"{kind}() of a non-generator")
    return h


def b_type(ev, state, node):
    return fresh(T.OPAQUE, 'type')


def b_slice(ev, state, node):
    args = _args(ev, state, node)
    if len(args) == 3 and args[2].meta == ('const', 1):
        ty = T.TTuple([T.INT, T.INT])
        return SymVal(ty, T.ctor(ty)(to_int(args[0]), to_int(args[1])), ('slice',))
    if len(args) == 2:
        ty = T.TTuple([T.INT, T.INT])
        return SymVal(ty, T.ctor(ty)(to_int(args[0]), to_int(args[1])), ('slice',))
    raise Unsupported("slice() form")


BUILTINS = {
    'len': b_len, 'min': b_minmax('min'), 'max': b_minmax('max'), 'abs': b_abs, 'list': b_list,
    'set': b_set, 'dict': b_dict, 'sorted': b_sorted, 'int': b_int, 'float': b_float,
    'str': b_str, 'bool': b_bool, 'isinstance': b_isinstance, 'range': b_range,
    'round': b_round, 'all': b_all_any('all'), 'any': b_all_any('any'), 'type': b_type,
    'slice': b_slice, 'print': lambda ev, state, node: NONEVAL,
}

# ---- spec helpers ------------------------------------------------------------------------------


def s_implies(ev, state, node):
    a = truth(ev.eval(state, node.args[0]))
    ev.ctx.guards.append(a)
    try:
        b = truth(ev.eval(state, node.args[1]))
    finally:
        ev.ctx.guards.pop()
    return SymVal(T.BOOL, z3.Implies(a, b))


def s_iff(ev, state, node):
    a = truth(ev.eval(state, node.args[0]))
    b = truth(ev.eval(state, node.args[1]))
    return SymVal(T.BOOL, a == b)


def s_old(ev, state, node):
    ctx = ev.ctx
    if '__old__' in state.ghost:
        st = State()
        st.pc = state.pc
        st.cells = state.cells
        st.ghost = dict(state.ghost['__old__'])
        return ev.eval(st, node.args[0])
    ent = ctx.entry
    st = ent.copy()
    st.pc = state.pc
    # quantified variables bound outside old(...) stay visible inside it
    for k, v in state.ghost.items():
        if k not in st.env:
            st.ghost[k] = v
    return ev.eval(st, node.args[0])


def s_dupfree(ev, state, node):
    v = ev.eval(state, node.args[0])
    i, j = z3.Int(fresh_name('di')), z3.Int(fresh_name('dj'))
    n = seq_len(v)
    ei, ej = SymVal(v.ty[1], seq_at(v, i)), SymVal(v.ty[1], seq_at(v, j))
    return SymVal(T.BOOL, z3.ForAll([i, j], z3.Implies(z3.And(0 <= i, i < j, j < n),
                                                       z3.Not(values_equal(ei, ej)))))


def s_sorted_by(strict):
    def h(ev, state, node):
        v = ev.eval(state, node.args[0])
        i, j = z3.Int(fresh_name('si')), z3.Int(fresh_name('sj'))
        n = seq_len(v)
        a, b = seq_at(v, i), seq_at(v, j)
        return SymVal(T.BOOL, z3.ForAll([i, j], z3.Implies(z3.And(0 <= i, i < j, j < n),
                                                           a < b if strict else a <= b)))
    return h


def s_bound(ev, state, node):
    nm = node.args[0].value
    asg = getattr(state, 'final_asg', None) or state.asg
    a = asg.get(nm)
    return SymVal(T.BOOL, a if a is not None else z3.BoolVal(False))


def s_is_none(ev, state, node):
    v = ev.eval(state, node.args[0])
    if v.ty == T.OPAQUE:
        from .engine import IS_NONE
        return SymVal(T.BOOL, IS_NONE(v.term))
    if v.ty == T.NONE:
        return const_bool(True)
    if v.ty[0] == 'opt':
        return SymVal(T.BOOL, T.opt_is_none(v.ty, v.term))
    return const_bool(False)


def s_some(ev, state, node):
    v = ev.eval(state, node.args[0])
    if v.ty[0] == 'opt':
        return select(v, ('some',))
    return v


def s_keys_equal_set(ev, state, node):
    raise Unsupported("keys_equal_set")


def s_local(ev, state, node):
    """local('x'): value of the local x at the exit being specified (arbitrary if unbound)"""
    nm = node.args[0].value
    env = getattr(state, 'final_env', None)
    if env is None or nm not in env:
        ht = ev.ctx.hint_type(nm)
        if ht is None:
            raise Unsupported(f"local({nm!r}) is not bound at this exit")
        return fresh(ht, 'unbound_' + nm)
    return read_ref(state, env[nm])


def s_truthy(ev, state, node):
    return SymVal(T.BOOL, truth(ev.eval(state, node.args[0])))


SPEC_FUNCS = {
    'local': s_local, 'truthy': s_truthy, 'arg_of': s_arg_of,
    'implies': s_implies, 'iff': s_iff, 'old': s_old, 'dupfree': s_dupfree,
    'sorted_strict': s_sorted_by(True), 'sorted_nondecr': s_sorted_by(False),
    'bound': s_bound, 'is_none': s_is_none, 'some': s_some,
}

SPEC_CONSTS = {}
NATIVE_SPEC = {}     # name -> native implementation (for pyvc.native)


def spec_function(name, native=None):
    """register a specification-only function: handler(ev, state, node) -> SymVal"""
    def deco(f):
        SPEC_FUNCS[name] = f
        if native is not None:
            NATIVE_SPEC[name] = native
        return f
    return deco


def _np_round_native(x):
    import numpy as np
    return float(np.round(x))


@spec_function('rnd', native=_np_round_native)
def s_rnd(ev, state, node):
    from . import numpy_prims
    return numpy_prims.np_round(ev, state, node)


def _dtype_const(name):
    def mk():
        v = const_int(1000 + DTYPE_IDS[name])
        v.meta = ('dtype', name)
        return v
    return mk


def _install_dtype_consts():
    import numpy as np
    for n in DTYPE_IDS:
        SPEC_CONSTS['DT_' + n.upper()] = _dtype_const(n)
        NATIVE_SPEC['DT_' + n.upper()] = {'int': int, 'float': float, 'bool': bool}.get(n) or getattr(np, n)


def _iinfo_native(which):
    def f(d):
        import numpy as np
        return int(getattr(np.iinfo(np.int64 if d is int else d), which))
    return f


def _iinfo_spec(which):
    def h(ev, state, node):
        d = ev.eval(state, node.args[0])
        t = to_int(d)
        r = z3.IntVal(0)
        for n, (lo, hi) in INT_INFO.items():
            r = z3.If(t == 1000 + DTYPE_IDS[n], z3.IntVal(lo if which == 'min' else hi), r)
        lo, hi = INT_INFO['int64']
        r = z3.If(t == 1000 + DTYPE_IDS['int'], z3.IntVal(lo if which == 'min' else hi), r)
        return SymVal(T.INT, r)
    return h


spec_function('iinfo_min', native=_iinfo_native('min'))(_iinfo_spec('min'))
spec_function('iinfo_max', native=_iinfo_native('max'))(_iinfo_spec('max'))
_install_dtype_consts()

QUALIFIED = {}
OPAQUE_METHODS = {}   # method name -> handler(ev, state, node, recv) for abstracted receivers (pyvc/ext)


def qualified(name):
    def deco(f):
        QUALIFIED[name] = f
        return f
    return deco


@qualified('copy.deepcopy')
def q_deepcopy(ev, state, node):
    v = ev.eval(state, node.args[0])
    return SymVal(v.ty, v.term)


@qualified('copy.copy')
def q_copy(ev, state, node):
    v = ev.eval(state, node.args[0])
    return SymVal(v.ty, v.term)


# ---- methods -------------------------------------------------------------------------------------
def method_call(ev, state, node, name):
    ctx = ev.ctx
    recv_node = node.func.value
    ref = ev.eval_ref(state, recv_node)
    recv = ev.eval(state, recv_node)
    if recv.ty[0] == 'opt' and recv.ty[1][0] in ('list', 'dict', 'set', 'rec', 'arr'):
        ctx.oblige(state, z3.Not(T.opt_is_none(recv.ty, recv.term)), 'AttributeError', node,
                   'receiver is not None')
        recv = select(recv, ('some',))
        if ref is not None:
            ref = Ref(ref.cid, ref.path + (('some',),))
    k = recv.ty[0]

    def need_ref():
        if ref is None:
            raise Unsupported(f"mutation of a temporary via .{name}()")
        return ref

    # records: methods with contracts
    if k == 'rec':
        cls = recv.ty[1]
        c = ctx.registry.get_method(cls, name)
        if c is not None:
            return call_contract(ev, state, node, c, c.qualname, receiver=(recv, ref))
        from . import ghost
        h = ghost.METHODS.get((cls, name))
        if h is not None:
            ctx.trusted_used.add(f"{cls}.{name}")
            return h(ev, state, node, recv, ref)
        raise Unsupported(f"method {cls}.{name} without contract")
    if k == 'opaque':
        h = OPAQUE_METHODS.get(name)
        if h is not None and not ctx.spec_mode:
            # trusted contract of a library method on an abstracted receiver (e.g. h5py
            # Group.create_dataset): the handler emits the pre-condition obligations
            ctx.trusted_used.add(f"?.{name}")
            return h(ev, state, node, recv)
        if not ctx.lenient:
            raise Unsupported(f"method .{name}() on abstracted value")
        return unknown_call(ev, state, node, f"?.{name}")
    if k == 'list':
        if name == 'append':
            x = ev.eval(state, node.args[0])
            if recv.meta == ('empty',) or (seq_is_untyped(recv) and x.ty != recv.ty[1]):
                hint = ctx.hint_type(recv_node.id) if isinstance(recv_node, ast.Name) else None
                nty = hint if hint is not None else T.TList(x.ty)
                recv = coerce(SymVal(recv.ty, recv.term, ('empty',)), nty)
            x = coerce(x, recv.ty[1])
            from .values import seq_append_ax
            if ctx.spec_mode or recv.meta == ('empty',) or z3.is_int_value(z3.simplify(seq_len(recv))):
                write_ref(state, need_ref(), seq_append(recv, x.term))
            else:
                write_ref(state, need_ref(), seq_append_ax(state, recv, x.term))
            # a named mutable stored into a container becomes an alias of that element
            if isinstance(node.args[0], ast.Name) and T.is_mutable(x.ty) and not ctx.spec_mode:
                r = need_ref()
                state.env[node.args[0].id] = Ref(r.cid, r.path + (('idx', seq_len(recv)),))
            return NONEVAL
        if name == 'pop':
            n = seq_len(recv)
            if node.args:
                i = to_int(ev.eval(state, node.args[0]))
            else:
                i = n - 1
            ctx.oblige(state, z3.And(-n <= i, i < n), 'IndexError', node, 'pop index in range')
            idx = z3.If(i < 0, i + n, i)
            if not z3.is_const(recv.term):
                # name the receiver: an ite / constructor term is not admissible inside a pattern
                named = fresh(recv.ty, 'popped_from')
                state.assume(named.term == recv.term)
                recv = SymVal(recv.ty, named.term, recv.meta)
                n = seq_len(recv)
                idx = z3.If(i < 0, i + n, i)
            r = fresh(recv.ty, 'popped')
            j = z3.Int(fresh_name('pj'))
            state.assume(seq_len(r) == n - 1,
                         z3.ForAll([j], z3.Implies(z3.And(0 <= j, j < idx), seq_at(r, j) == seq_at(recv, j)),
                                   patterns=[seq_at(r, j), seq_at(recv, j)]),
                         z3.ForAll([j], z3.Implies(z3.And(idx <= j, j < n - 1),
                                                   seq_at(r, j) == seq_at(recv, j + 1)),
                                   patterns=[seq_at(r, j)]),
                         z3.ForAll([j], z3.Implies(z3.And(idx < j, j < n),
                                                   seq_at(r, j - 1) == seq_at(recv, j)),
                                   patterns=[seq_at(recv, j)]))
            out = SymVal(recv.ty[1], seq_at(recv, idx))
            write_ref(state, need_ref(), r)
            return out
        if name == 'sort':
            rev = False
            for kw in node.keywords:
                if kw.arg == 'reverse' and isinstance(kw.value, ast.Constant):
                    rev = bool(kw.value.value)
                else:
                    raise Unsupported("sort with key")
            write_ref(state, need_ref(), sorted_perm_of(state, recv, reverse=rev))
            return NONEVAL
        if name == 'reverse':
            n = seq_len(recv)
            r = fresh(recv.ty, 'reversed')
            j = z3.Int(fresh_name('rj'))
            state.assume(seq_len(r) == n,
                         z3.ForAll([j], z3.Implies(z3.And(0 <= j, j < n),
                                                   seq_at(r, j) == seq_at(recv, n - 1 - j))))
            write_ref(state, need_ref(), r)
            return NONEVAL
        if name == 'extend':
            other = ev.eval(state, node.args[0])
            if other.ty[0] in ('dict', 'set'):
                other = enumeration_of(state, other)
            write_ref(state, need_ref(), ev.concat(state, recv, SymVal(T.TList(other.ty[1]), other.term)))
            return NONEVAL
        if name == 'copy':
            return SymVal(recv.ty, recv.term)
        if name == 'index':
            x = ev.eval(state, node.args[0])
            r = z3.Int(fresh_name('index'))
            j = z3.Int(fresh_name('ij'))
            ctx.oblige(state, ev.contains(state, recv, x, node), 'ValueError', node, 'value in list')
            state.assume(0 <= r, r < seq_len(recv),
                         values_equal(SymVal(recv.ty[1], seq_at(recv, r)), x),
                         z3.ForAll([j], z3.Implies(z3.And(0 <= j, j < r),
                                                   z3.Not(values_equal(SymVal(recv.ty[1], seq_at(recv, j)), x)))))
            return SymVal(T.INT, r)
    if k == 'dict':
        if name in ('keys', 'values', 'items'):
            if name == 'keys':
                return to_set_value(ev, state, recv, node)
            raise Unsupported(f"dict.{name}() as a value")
        if name == 'pop':
            kv = coerce(ev.eval(state, node.args[0]), recv.ty[1])
            if len(node.args) == 1:
                ctx.oblige(state, dict_dom(recv)[kv.term], 'KeyError', node, 'popped key present')
                out = SymVal(recv.ty[2], dict_val(recv)[kv.term])
            else:
                raise Unsupported("dict.pop with default")
            write_ref(state, need_ref(), dict_remove(recv, kv.term))
            return out
        if name == 'get':
            kv = coerce(ev.eval(state, node.args[0]), recv.ty[1])
            if len(node.args) == 2:
                d = ev.eval(state, node.args[1])
                ty = join_types(recv.ty[2], d.ty)
                if ty is None:
                    raise Unsupported("dict.get default of another type")
                return SymVal(ty, z3.If(dict_dom(recv)[kv.term],
                                        coerce(SymVal(recv.ty[2], dict_val(recv)[kv.term]), ty).term,
                                        coerce(d, ty).term))
            ty = T.TOpt(recv.ty[2])
            return SymVal(ty, z3.If(dict_dom(recv)[kv.term],
                                    T.opt_some(ty, dict_val(recv)[kv.term]), T.opt_none(ty)))
        if name == 'copy':
            return SymVal(recv.ty, recv.term)
    if k == 'set':
        if name == 'add':
            x = ev.eval(state, node.args[0])
            if recv.meta == ('empty',):
                recv = coerce(recv, T.TSet(x.ty))
            write_ref(state, need_ref(), set_add(recv, coerce(x, recv.ty[1]).term))
            return NONEVAL
        if name in ('union', 'intersection', 'difference'):
            other = ev.eval(state, node.args[0])
            if other.ty[0] != 'set':
                other = to_set_value(ev, state, other, node)
            if recv.meta == ('empty',):
                recv = coerce(recv, other.ty)
            other = coerce(other, recv.ty)
            return ev.set_binop(state, {'union': 'union', 'intersection': 'inter',
                                        'difference': 'diff'}[name], recv, other)
        if name in ('update', 'intersection_update', 'difference_update') and len(node.args) == 1:
            # in-place forms of union / intersection / difference
            other = ev.eval(state, node.args[0])
            if other.ty[0] != 'set':
                other = to_set_value(ev, state, other, node)
            if recv.meta == ('empty',):
                recv = coerce(recv, other.ty)
            other = coerce(other, recv.ty)
            new = ev.set_binop(state, {'update': 'union', 'intersection_update': 'inter',
                                       'difference_update': 'diff'}[name], recv, other)
            write_ref(state, need_ref(), new)
            return NONEVAL
        if name == 'pop' and not node.args:
            # removes and returns an arbitrary member; KeyError on the empty set
            ctx.oblige(state, set_card(recv) > 0, 'KeyError', node, 'pop from a non-empty set')
            x = fresh(recv.ty[1], 'popped')
            state.assume(set_has(recv)[x.term])
            write_ref(state, need_ref(), set_remove(recv, x.term))
            return x
        if name in ('remove', 'discard'):
            x = coerce(ev.eval(state, node.args[0]), recv.ty[1])
            if name == 'remove':
                ctx.oblige(state, set_has(recv)[x.term], 'KeyError', node, 'removed member present')
            write_ref(state, need_ref(), set_remove(recv, x.term))
            return NONEVAL
        if name == 'copy':
            return SymVal(recv.ty, recv.term)
    if k in ('arr', 'arr2'):
        from . import numpy_prims
        r = numpy_prims.method(ev, state, node, recv, ref, name)
        if r is not None:
            return r
    if k in ('int', 'real'):
        from . import numpy_prims
        r = numpy_prims.scalar_method(ev, state, node, recv, name)
        if r is not None:
            return r
    if k == 'name':
        h = NAME_METHODS.get(name)
        if h is not None:
            ctx.trusted_used.add(f'str/path method .{name}()')
            return h(ev, state, node, recv)
        raise Unsupported(f"str method .{name}()")
    raise Unsupported(f"method .{name}() on {T.show(recv.ty)}")


NAME_METHODS = {}    # method name -> handler(ev, state, node, recv): trusted models of methods of
                     # strings / paths used as identifiers (e.g. Path.resolve), registered by pyvc/ext/*


def seq_is_untyped(v):
    return v.meta == ('empty',)
