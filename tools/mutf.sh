#!/bin/bash
# tools/mutf.sh <file under src/cell_type_mapper> <old text> <new text> <contract name pattern> [lines]
# applies one textual mutation in a scratch copy and runs the matching contracts against it
SCR=${SCR:-/tmp/scr_main}
mkdir -p $SCR
[ -d $SCR/src ] || cp -r /repo/src $SCR/src
f=$1
cp /repo/src/cell_type_mapper/$f $SCR/src/cell_type_mapper/$f
python3 - "$f" "$2" "$3" "$SCR" <<'PY'
import sys
f,a,b,scr=sys.argv[1:5]
src='/repo/src/cell_type_mapper/'+f
p=scr+'/src/cell_type_mapper/'+f
s=open(src).read()
if a not in s:
    print('PATTERN NOT FOUND'); sys.exit(0)
open(p,'w').write(s.replace(a,b,1))
PY
cd /verif && VERIF_REPO=$SCR .venv/bin/python -m pyvc.run "$4" 2>&1 | grep -v WARNING | cut -c1-200 | grep "^   \[\|^cell\|PATTERN" | head -${5:-3}
cp /repo/src/cell_type_mapper/$f $SCR/src/cell_type_mapper/$f
