#!/usr/bin/env python3
"""run the baseline's stable-pass tests whose module matches a substring and report regressions:
   python3 tools/baseline_subset.py validation [repo_dir]"""
import json, subprocess, sys, os, re, tempfile
import xml.etree.ElementTree as ET
pat = sys.argv[1]
repo = sys.argv[2] if len(sys.argv) > 2 else '/repo'
tests = [t for t in json.load(open('/root/.vp/BASELINE.json'))['stable_pass'] if pat in t.split('::')[0]]
mods = sorted({t.split('::')[0].replace('.', '/') + '.py' for t in tests})
if not mods:
    print('no baseline tests match'); sys.exit(0)
xml = tempfile.mktemp(suffix='.xml')
env = dict(os.environ, PYTHONPATH=os.path.join(repo, 'src'))
subprocess.run(['/venv/bin/python', '-m', 'pytest', '-q', '-p', 'no:cacheprovider', '--timeout=900',
                '--continue-on-collection-errors', f'--junitxml={xml}'] + mods,
               cwd=repo, env=env, stdout=subprocess.DEVNULL, stderr=subprocess.DEVNULL)
passed = set()
for tc in ET.parse(xml).getroot().iter('testcase'):
    if not any(ch.tag in ('failure', 'error', 'skipped') for ch in tc):
        passed.add(f"{tc.get('classname')}::{tc.get('name')}")
os.unlink(xml)
missing = [t for t in tests if t not in passed]
print(f"baseline tests matching {pat!r}: {len(tests)}; still passing: {len(tests) - len(missing)}")
for t in missing[:20]:
    print('  REGRESSION:', t)
sys.exit(1 if missing else 0)
