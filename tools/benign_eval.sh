#!/bin/bash
# tools/benign_eval.sh [ids...]: run ./check <property> against a scratch copy of /repo with each stored
# behaviour-preserving change applied (benign/<Cxx>_<k>.diff); writes benign/RESULTS.md.
# A VIOLATION line on one of these is a false alarm of the check.
cd "$(dirname "$0")/.."
IDS="$@"; [ -z "$IDS" ] && IDS=$(ls benign | grep -E '^C[0-9]+_[0-9]+\.diff$' | sed 's/\.diff//')
mkdir -p .logs/benign
for ID in $IDS; do
  P=${ID%%_*}
  SCR=/tmp/benign_$ID; rm -rf $SCR; mkdir -p $SCR; git -C /repo archive HEAD | tar -x -C $SCR    # HEAD, not the working tree (which an acceptance run may be patching)
  if ! (cd $SCR && patch -p1 -s < /verif/benign/$ID.diff); then echo "$ID PATCHFAIL"; rm -rf $SCR; continue; fi
  VERIF_REPO=$SCR ./check $P > .logs/benign/$ID.log 2>&1; R=$?
  rm -rf $SCR
  echo "$ID rc=$R viol=$(grep -c '^VIOLATION' .logs/benign/$ID.log) undecided=$(grep -c '^UNDECIDED' .logs/benign/$ID.log)"
done
python3 - <<'PY'
import glob, json, os, re
rows = ["| change | kind | what was changed | exit | VIOLATION lines | UNDECIDED (contract out of date) |", "|---|---|---|---|---|---|"]
n = bad = und = 0
for d in sorted(glob.glob('benign/C*_*.diff')):
    i = os.path.basename(d)[:-5]
    log = f'.logs/benign/{i}.log'
    if not os.path.exists(log):
        continue
    t = open(log, errors='replace').read()
    m = json.load(open(f'benign/{i}.meta.json'))
    v = len(re.findall(r'^VIOLATION', t, re.M))
    u = [l.split(':', 2)[1].strip().replace('cell_type_mapper.', '') for l in t.splitlines() if l.startswith('UNDECIDED')]
    first = t.splitlines()[0] if t else ''
    ok = re.match(r'C\d+ \[', first) is not None
    rc = 1 if v else (0 if ok else 3)
    n += 1; bad += bool(v); und += bool(u)
    rows.append(f"| `{i}` | {m.get('kind','')} | {m.get('summary','')[:170]} | {rc} | {v} | {', '.join(u)} |")
open('benign/RESULTS.md', 'w').write(
    "# Behaviour-preserving changes run against the checks (false-alarm probe)\n\n"
    "Each change was written by an independent sub-agent given only the property text and a scratch worktree, with an\n"
    "equivalence script (`<id>.equiv.py`) whose output is identical on the unchanged and the changed tree.\n"
    "`tools/benign_eval.sh` applies each to a scratch copy of /repo and runs `./check <property>`.\n\n"
    + '\n'.join(rows) + f"\n\n{n} changes, {bad} with a VIOLATION line (false alarms), {und} with at least one function reported UNDECIDED.\n")
print(n, 'changes;', bad, 'false alarms;', und, 'with undecided functions')
PY
