#!/usr/bin/env python3
"""writes seeded/<id>/meta.json from the red-team agent's meta, the confirmation run and the check logs"""
import glob, json, os, re
HERE = os.path.dirname(os.path.dirname(os.path.abspath(__file__)))
for d in sorted(glob.glob(os.path.join(HERE, 'seeded', '*'))):
    ev = os.path.join(d, 'eval.json')
    ma = os.path.join(d, 'meta_agent.json')
    if not (os.path.exists(ev) and os.path.exists(ma)):
        continue
    e = json.load(open(ev))
    a = json.load(open(ma))
    pid = a.get('property') or os.path.basename(d).split('_')[0]
    checks = {}
    caught_by = []
    for log in sorted(glob.glob(os.path.join(d, 'check_*.log'))):
        p = os.path.basename(log)[6:-4]
        txt = open(log, errors='replace').read()
        viol = [l for l in txt.splitlines() if l.startswith('VIOLATION')]
        failed = [l.strip()[8:] for l in txt.splitlines() if l.strip().startswith('failed:')]
        m = re.search(rf" {p}:(\d+)", e.get('checks', ''))
        rc = int(m.group(1)) if m else None
        checks[p] = dict(exit=rc, violation_lines=len(viol))
        if viol and failed:
            seen = []
            for f in failed:
                key = f.split(':')[0] + ':' + (f.split(': ', 1)[1][:110] if ': ' in f else '')
                if key not in seen:
                    seen.append(key)
            caught_by.append(f"./check {p}: " + ' ;; '.join(seen[:2]))
    own = checks.get(pid, {})
    meta = dict(
        property=pid,
        summary=a.get('summary', ''),
        needs=a.get('needs', ''),
        files=a.get('files', []),
        origin="independent sub-agent given only the property text and a scratch worktree of /repo",
        confirmed_here=dict(
            patch_applies=True,
            demo_unchanged_exit=e.get('demo_unchanged_exit'),
            demo_changed_exit=e.get('demo_changed_exit'),
            ran=("tools/seeded_final.sh: demo.py in /repo (unchanged tree), git -C /repo apply patch.diff, demo.py, "
                 "./check <property> --tier quick, git -C /repo checkout -- ." if e.get('how') else
                 "tools/seeded_eval.sh: demo.py on a scratch copy of /repo's tree without and with patch.diff; "
                 "then ./check <property> with VERIF_REPO pointing at the patched copy"),
            check_wall_s=e.get('wall_s'),
            rebased=a.get('rebased')),
        agent_tests_run=a.get('tests_run', ''),
        checks=checks,
        demo_unchanged_exit=e.get('demo_unchanged_exit'),
        demo_changed_exit=e.get('demo_changed_exit'),
        detected=bool(own.get('exit') == 1 and own.get('violation_lines')),
        caught_by=' | '.join(caught_by),
    )
    json.dump(meta, open(os.path.join(d, 'meta.json'), 'w'), indent=1)
    print(os.path.basename(d), 'detected' if meta['detected'] else 'MISSED', checks)
