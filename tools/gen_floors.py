#!/usr/bin/env python3
"""guard G-0: writes /verif/obligation_floors.json = {function view: floor} from the evidence of green
runs (floor = half of the obligations generated on the unchanged tree, at least 1).  A later run that
generates fewer obligations than the floor for a function that still exists is a checker error."""
import glob, json, os
HERE = os.path.dirname(os.path.dirname(os.path.abspath(__file__)))
floors = {}
for f in sorted(glob.glob(os.path.join(HERE, 'evidence', 'C*.json'))):
    e = json.load(open(f))
    for r in e['coverage'].get('functions_under_contract', []):
        if r.get('status') == 'ok' and r.get('obligations'):
            fl = max(1, r['obligations'] // 2)
            floors[r['function']] = min(fl, floors.get(r['function'], fl))
json.dump(floors, open(os.path.join(HERE, 'obligation_floors.json'), 'w'), indent=1, sort_keys=True)
print(len(floors), 'floors written')
