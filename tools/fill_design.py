#!/usr/bin/env python3
"""DESIGN.md = tools/DESIGN.template.md with the generated parts filled in"""
import glob, json, os
HERE = os.path.dirname(os.path.dirname(os.path.abspath(__file__)))
t = open(os.path.join(HERE, 'tools', 'DESIGN.template.md')).read()
per = open(os.path.join(HERE, 'tools', 'design_per_property.md')).read()
fa = open(os.path.join(HERE, 'tools', 'false_alarms.md')).read()
kf = json.load(open(os.path.join(HERE, 'known_findings.json')))['findings']
fixed = ["| id | property | commit | what failed |", "|---|---|---|---|"]
for f in kf:
    if f.get('status') == 'fixed':
        txt = f.get('fixed', '')
        parts = txt.split(' ', 3)
        commit = parts[2] if len(parts) > 2 else ''
        what = parts[3] if len(parts) > 3 else f.get('what', '')
        props = ', '.join([f['property']] + f.get('also', []))
        fixed.append(f"| {f['id']} | {props} | `{commit}` | {what} |")
openf = ["| id | property | what fails (witness) |", "|---|---|---|"]
for f in kf:
    if f.get('status', 'open') == 'open':
        props = ', '.join([f['property']] + f.get('also', []))
        openf.append(f"| {f['id']} | {props} | {f['what']} |")
rows = ["| change | property | what was changed | needs | demonstration (unchanged / changed) | caught by |",
        "|---|---|---|---|---|---|"]
n = caught = 0
for d in sorted(glob.glob(os.path.join(HERE, 'seeded', '*'))):
    mp = os.path.join(d, 'meta.json')
    if not os.path.exists(mp):
        continue
    m = json.load(open(mp))
    n += 1
    if m.get('detected'):
        caught += 1
    rows.append(f"| `{os.path.basename(d)}` | {m['property']} | {m['summary'][:230]} | {m['needs'][:200]} | "
                f"{m.get('demo_unchanged_exit')} / {m.get('demo_changed_exit')} | {m.get('caught_by', '')[:260]} |")
rows.append(f"\n{caught} of {n} confirmed changes are reported by the check of their property "
            f"(VIOLATION line, exit 1); the rest are discussed below the table.")
extra = os.path.join(HERE, 'tools', 'seeded_notes.md')
if os.path.exists(extra):
    rows.append("\n" + open(extra).read())
t = (t.replace('@@PER_PROPERTY@@', per).replace('@@FIXED_TABLE@@', '\n'.join(fixed))
      .replace('@@OPEN_TABLE@@', '\n'.join(openf)).replace('@@FALSE_ALARMS@@', fa)
      .replace('@@SEEDED_TABLE@@', '\n'.join(rows)))
open(os.path.join(HERE, 'DESIGN.md'), 'w').write(t)
print('DESIGN.md written', len(t), 'chars;', n, 'seeded changes,', caught, 'caught')
