#!/usr/bin/env python3
"""prints the prompt for a 'benign change' sub-agent (false-alarm probe):
python3 tools/benign_prompt.py C01 /tmp/wtb_C01"""
import json, sys
pid, wt = sys.argv[1], sys.argv[2]
rec = None
for l in open('/verif/properties.jsonl'):
    r = json.loads(l)
    if r['id'] == pid:
        rec = r
tests = json.load(open('/root/.vp/BASELINE.json'))['stable_pass']
mods = sorted({t.split('::')[0].replace('.', '/') + '.py' for t in tests})
print(f"""You are a maintainer of the Python package `cell_type_mapper`. You work in a git worktree at {wt} (work ONLY inside this directory; never touch /repo or /verif, and do not read anything under /verif). Use the interpreter /venv/bin/python and ALWAYS run with `PYTHONPATH={wt}/src` so that your worktree's source is imported instead of the installed copy. No network. NEVER use `git stash` (the stash is shared with other worktrees); to compare with the unchanged tree use `git diff > /tmp/x.diff; git checkout -- .; ...; git apply /tmp/x.diff`.

Below is a semantic property of the package that MUST KEEP HOLDING (a JSON record; `statement` is the property, `anchors` names the code that makes it hold):

{json.dumps(rec, indent=1)}

TASK. Produce FOUR independent, realistic, BEHAVIOUR-PRESERVING changes to the anchored code (the functions named in `anchors` and the helpers they call) — the kind of commit a maintainer makes every week and that must NOT change any observable result, error behaviour or side effect, so the property above keeps holding for every input:
  A. a readability refactor inside one anchored function: rename local variables, reorder independent statements, replace an index loop by `enumerate`/`zip` or the reverse, merge/split a conditional, early-`continue`, replace `dict()`/`list()` by literals, etc.;
  B. a structural refactor: extract a block of an anchored function into a new private helper (or inline a small helper into its only caller), or split one loop into two passes / fuse two loops, keeping the results identical;
  C. a performance-motivated change that keeps results bit-identical: hoist an invariant computation out of a loop, pre-allocate, replace a Python loop by an equivalent numpy expression (or vice versa), cache a repeated lookup;
  D. an additive change: extra log/benchmark message, extra input validation that only rejects inputs that already failed later with an error, a new optional keyword argument whose default reproduces the present behaviour, improved error message text, docstring/type-hint edits.
Each change must touch executable code of at least one function named in the anchors (not only comments), must keep public signatures backward compatible, and must pass the existing tests: run the test modules related to the files you touch with `cd {wt} && PYTHONPATH={wt}/src /venv/bin/python -m pytest -q -p no:cacheprovider --timeout=900 <module> ...` and compare with the unchanged tree (some tests fail in this sandbox for unrelated reasons; only NEW failures count). The relevant baseline modules are:
   {' '.join(mods)}
For every change also write a small equivalence script that runs the changed function(s) on a handful of inputs including corner cases and prints a digest of the results; its output must be identical on the unchanged and on the changed tree (run it both ways and confirm).

DELIVERABLES in {wt}/_benign/ (create it): for k in 1..4: `change_k.diff` (output of `git diff` for that change alone, applicable with `git apply` to a clean worktree), `equiv_k.py`, and `meta_k.json` = {{"property": "{pid}", "kind": "A|B|C|D", "summary": "<one sentence>", "files": [...], "functions": [...], "tests_run": "<commands and outcome>", "equiv_identical": true}}. Leave the worktree's tracked files CLEAN at the end (`git checkout -- .`). Verify each diff applies cleanly on its own to the clean worktree.

Your final message: one line per change (kind, function, what was done, test outcome). Be concise.""")
