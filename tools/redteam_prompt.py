#!/usr/bin/env python3
"""prints the prompt for a red-team (seeded change) sub-agent: python3 tools/redteam_prompt.py C01 /tmp/wt_C01"""
import json, sys
pid, wt = sys.argv[1], sys.argv[2]
rec = None
for l in open('/verif/properties.jsonl'):
    r = json.loads(l)
    if r['id'] == pid:
        rec = r
tests = json.load(open('/root/.vp/BASELINE.json'))['stable_pass']
mods = sorted({t.split('::')[0].replace('.', '/') + '.py' for t in tests})
print(f"""You are a software engineer asked to introduce a subtle, REALISTIC regression into a Python code base, as a test of an independent verification effort that you know nothing about.

The code base is a git worktree of the `cell_type_mapper` package at {wt} (work ONLY inside this directory; never touch /repo or /verif, and do not read anything under /verif). Use the interpreter /venv/bin/python and ALWAYS run with `PYTHONPATH={wt}/src` set so that your worktree's source is imported instead of the installed copy (check once with `PYTHONPATH={wt}/src /venv/bin/python -c "import cell_type_mapper; print(cell_type_mapper.__file__)"`). No network.

The property your change must break (a JSON record; `statement` is the property, `quantifier` says over which inputs/configurations it must hold, `anchors` names the code that is meant to make it hold):

{json.dumps(rec, indent=1)}

TASK. Produce TWO independent changes (different code sites / different mechanisms), each of which:
1. breaks the property above for some input / configuration / schedule / fault covered by its quantifier;
2. still imports/compiles and passes the existing test suite — the relevant baseline is these test modules (the others fail in this sandbox for unrelated reasons): run at least the modules related to the files you touch, e.g. `cd {wt} && PYTHONPATH={wt}/src /venv/bin/python -m pytest -q -p no:cacheprovider --timeout=900 <module> ...`, and before you finish run the whole list once (takes ~5-10 min; run it in the background and keep working):
   {' '.join(mods)}
   A test that already failed/errored before your change does not count against you (to compare with the unchanged tree save your change with `git diff > /tmp/mychange.diff`, `git checkout -- .`, run, then `git apply /tmp/mychange.diff`; NEVER use `git stash`: the stash is shared by all worktrees of this repository and other people are working in them);
3. needs something SPECIFIC to manifest — an unusual but legitimate input (boundary size, single-child taxonomy node, empty row, duplicate-free but unsorted list, ...), a particular configuration (chunk size vs number of cells, worker count, flatten/drop_level, cloud_safe, ...), a fault or crash at a particular point, a multi-step sequence, or two cooperating edits that each look fine alone. NOT something ordinary use or the existing tests would expose at once, and not a blatant sabotage (no `raise`, no `if random`, no dead code that screams "bug"); it should read like a plausible refactoring slip, off-by-one, wrong variable, misplaced statement, dropped guard, wrong default, or mishandled corner case;
4. comes with a demonstration: a small self-contained script that exits 0 on the UNCHANGED worktree and exits non-zero (assertion failure showing the property violation) with your change applied. Build inputs with the package's own API / numpy / anndata / h5py in a tempfile.mkdtemp() directory that the script removes.

DELIVERABLES, in {wt}/_seeded/ (create it): for k in 1,2: `change_k.diff` (output of `git diff` for that change alone, applicable with `git apply` to a clean worktree), `demo_k.py`, and `meta_k.json` = {{"property": "{pid}", "summary": "<one sentence: what was changed>", "needs": "<what is needed for it to manifest>", "files": [...], "tests_run": "<commands you ran and their outcome>", "demo_unchanged_exit": 0, "demo_changed_exit": <n>}}. Leave the worktree's tracked files CLEAN at the end (git checkout -- . ; the _seeded directory is untracked). Verify each diff applies cleanly to the clean worktree and that the demo behaves as stated (run it both ways).

Your final message: for each change the summary, what it needs to manifest, test results, and the exact demo outcome both ways. Be concise.""")
