#!/bin/bash
# tools/allchecks.sh <quick|thorough> [ids...]: runs ./check for every property, one line per property
cd "$(dirname "$0")/.."
TIER=${1:-quick}; shift
IDS="$@"; [ -z "$IDS" ] && IDS=$(seq -f "C%02g" 1 20)
mkdir -p .logs
for p in $IDS; do
  s=$(date +%s)
  ./check $p --tier $TIER > .logs/check_${p}_$TIER.log 2>&1; rc=$?
  e=$(date +%s)
  echo "$p rc=$rc wall=$((e-s))s $(grep -m1 "^$p \[" .logs/check_${p}_$TIER.log | cut -c1-150)"
done
