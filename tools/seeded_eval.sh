#!/bin/bash
# tools/seeded_eval.sh <worktree> <property id> <k> [extra property ids]
# confirm a red-team change (demo passes unchanged / fails changed) and run ./check against a scratch
# copy of /repo's current tree with the patch applied (VERIF_REPO), leaving /repo untouched.
# (final acceptance runs use `git -C /repo apply` / `git -C /repo checkout -- .` instead: tools/seeded_final.sh)
WT=$1; PID=$2; K=$3; shift 3; EXTRA="$@"
SD=$WT/_seeded
OUT=/verif/seeded/${PID}_${OUTK:-$K}
mkdir -p $OUT
[ -f $SD/change_$K.diff ] && { cp $SD/change_$K.diff $OUT/patch.diff; cp $SD/demo_$K.py $OUT/demo.py; cp $SD/meta_$K.json $OUT/meta_agent.json; }
SCR=/tmp/seeded_repo_${PID}_${OUTK:-$K}
rm -rf $SCR; mkdir -p $SCR; git -C /repo archive HEAD | tar -x -C $SCR    # HEAD, not the working tree (which an acceptance run may be patching)
echo "== demo on unchanged tree"; (cd $SCR && PYTHONPATH=$SCR/src timeout 900 /venv/bin/python $OUT/demo.py > $OUT/demo_unchanged.log 2>&1); U=$?; echo "exit $U"
(cd $SCR && patch -p1 -s < $OUT/patch.diff) || { echo "PATCH DOES NOT APPLY"; rm -rf $SCR; exit 1; }
echo "== demo on changed tree"; (cd $SCR && PYTHONPATH=$SCR/src timeout 900 /venv/bin/python $OUT/demo.py > $OUT/demo_changed.log 2>&1); C=$?; echo "exit $C"; tail -1 $OUT/demo_changed.log | cut -c1-200
RES=""
for P in $PID $EXTRA; do
  (cd /verif && VERIF_REPO=$SCR timeout 1800 ./check $P > $OUT/check_$P.log 2>&1); R=$?
  echo "== ./check $P -> exit $R"; grep -m2 "failed:" $OUT/check_$P.log | cut -c1-200
  RES="$RES $P:$R"
done
rm -rf $SCR
echo "{\"demo_unchanged_exit\": $U, \"demo_changed_exit\": $C, \"checks\": \"$RES\"}" > $OUT/eval.json
cat $OUT/eval.json
