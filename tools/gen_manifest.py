#!/usr/bin/env python3
"""regenerates /verif/MANIFEST.json from the table below (keeps it schema-valid)"""
import json, os
HERE = os.path.dirname(os.path.dirname(os.path.abspath(__file__)))

CLAIMED = {
    # pid: (category, text, level_note, technique, design_ref)
    'C14': ('proof',
            "exit-code discipline of winnow_process_list / winnow_process_dict proved for all process "
            "lists from the real AST (loop invariants, raises-iff); callers' dispatch/drain loops as slices",
            "A-PROC (Process.exitcode semantics, process isolation) trusted; parent killed / OS partial writes out of reach",
            "contract-based deductive verification: sidecar contracts + AST->VC generator (pyvc) + z3/cvc5; bounded native contract execution as labelled stand-in",
            "DESIGN.md 4 C14"),
}

NOT_YET = {}


def main():
    props = [json.loads(l) for l in open(os.path.join(HERE, 'properties.jsonl'))]
    checks = []
    na = []
    for p in props:
        pid = p['id']
        if pid in CLAIMED:
            cat, text, note, tech, ref = CLAIMED[pid]
            checks.append(dict(
                property_id=pid,
                quick_cmd=f"./check {pid} --tier quick",
                thorough_cmd=f"./check {pid} --tier thorough",
                evidence_file=f"evidence/{pid}.json",
                replay_cmd_template=f"./check {pid} --replay {{path}}",
                engine="pyvc",
                level_claimed=dict(category=cat, text=text, design_ref=ref),
                level_note=note, technique=tech))
        else:
            na.append(dict(property_id=pid, reason=NOT_YET.get(pid, "check not built yet (work in progress; see DESIGN.md 4 for the plan)")))
    m = dict(
        version=1,
        setup_cmd="bash setup.sh",
        hooks=dict(guard="CELL_TYPE_MAPPER_VERIF", enable="no hooks: contracts are sidecar files under /verif/contracts; /repo is only read (ast) and imported",
                   baseline_off_cmd="cd /repo && /venv/bin/python -m pytest -ra -q -p no:cacheprovider --timeout=900 --continue-on-collection-errors",
                   source_commits=[], add_only=True),
        engines=[dict(name="pyvc", path="pyvc/", serves_properties=sorted(CLAIMED),
                      kind_free_text="AST -> verification-condition generator for a typed Python subset (forward symbolic execution, loop invariants, modular calls by contract, exception outcomes), discharged by z3 5.1 / cvc5; same contract clauses executed natively for replay and bounded stand-ins")],
        checks=checks,
        notes="exit codes: 0 held, 1 VIOLATION, 2 undecided (contract out of date), 3 checker error. known findings: known_findings.json",
        not_applicable=na)
    with open(os.path.join(HERE, 'MANIFEST.json'), 'w') as f:
        json.dump(m, f, indent=1)
    print(f"claimed {len(checks)} not_applicable {len(na)}")


if __name__ == '__main__':
    main()
