#!/usr/bin/env python3
"""regenerates /verif/MANIFEST.json from the table below (keeps it schema-valid)"""
import json
import os
HERE = os.path.dirname(os.path.dirname(os.path.abspath(__file__)))

TECH = ("contract-based deductive verification: sidecar contracts on the real functions, "
        "AST->VC generator (pyvc) re-reading /repo on every run, z3 + cvc5; bounded native execution "
        "of the same clauses only as labelled stand-in")

# pid: (level text, level_note / trusted base)
CLAIMED = {
    'C01': ("proved from the real AST: re_order_blob (one record per obs id, in obs order, permutation "
            "independent), TaxonomyTree.backfill_assignments / _drop_level / flatten / parents / children, "
            "validate_taxonomy_tree => wf_tree, chunk iterators' stepping, run_type_assignment slices; "
            "bounded: whole mapping runs over taxonomy shapes x flatten/drop_level x chunking x encodings",
            "h5py/anndata I/O, JSON round trip of per-chunk buffers and OS process isolation trusted; GPU path not verified; "
            "end-to-end clauses (every cell mapped, path consistency across a dropped level) are bounded, not proved"),
    'C02': ("proved: tally_votes sizing/subset/one-vote-per-row-per-iteration, aggregate_votes, choose_node "
            "(winner = arg-max, share, average correlation, runner-up order), normalisation-before-downsampling "
            "slice; bounded: votes recomputed from the drawn subsets with a direct Pearson computation",
            "A-REAL (floats as reals); rng.choice / numpy reductions as trusted axioms; Pearson numerics bounded only"),
    'C03': ("proved: choose_node / tally_votes / aggregate_votes arithmetic clauses (probability = votes/iterations "
            "in (0,1], runner-up filtering, ordering, distinctness, sum <= 1), backfill copies; bounded: every record of "
            "real mapping outputs incl. iteration count 1, 0 runners-up, more runners-up than siblings",
            "A-REAL; |correlation| <= 1 bounded only (1e-6)"),
    'C04': ("proved: seed drawn once per dispatched chunk in the parent before start() (ghost counter), "
            "re_order_blob permutation independence, winnow_* and the dispatch/drain slices of all seven stages, "
            "set-order independence of write_query_markers_to_h5, work split computed before any worker starts; "
            "bounded: every completion-order permutation (<=3 workers), worker counts, PYTHONHASHSEED values",
            "A-PROC (process isolation, exitcode semantics); real races inside multiprocessing.Manager / the "
            "filesystem / BLAS threads are outside any contract"),
    'C05': ("proved: chunk iterators' __next__ (consecutive, disjoint, covering, in order), _load_sparse, "
            "_csr_to_dense, merge_csr, _merge_csr_chunk, precompute/downsample_indptr, DenseArrayRowIterator.get_batch, "
            "transposition outer loop; bounded: row access over dense/CSR/CSC x X/layer x every chunk size, every "
            "duplicate-free row list",
            "h5py slicing returns stored values (trusted); inner fill pass of the CSC->CSR conversion bounded (<=3x3 "
            "exhaustive, >100-entry random)"),
    'C06': ("proved: factor-1 lemma pieces in tally_votes (full-size duplicate-free sorted selection), routing of "
            "rows in run_type_assignment slices, chunk stepping, re_order_blob; bounded: permutation / deletion / "
            "duplication / chunking metamorphic relations on real runs",
            "A-REAL; pointwise numpy axioms trusted; float agreement checked to 1e-6 only"),
    'C07': ("proved: to_log2CPM_in_place refuses down-sampled / non-raw data and the election normalises before "
            "down-sampling (slice), name-based pairing in write_query_markers_to_h5, negative raw input rejected "
            "(is_data_ge_zero, min/max tilings); bounded: scaling, declared normalisation, gene permutation, "
            "extra genes on real runs",
            "A-REAL: bitwise equality cannot be decided for relations that perturb float summation order"),
    'C08': ("proved: validate_marker_lookup (ancestor fallback nearest-first, stop rule, raises-iff), "
            "reconcile_taxonomy_and_markers, create_marker_cache_from_specified_markers error logic, "
            "write_query_markers_to_h5 pairing by name; bounded: small-scope enumeration through real TaxonomyTree objects",
            "TaxonomyTree queries used by the marker code are contracts proved under C10; HDF5 round trip trusted; "
            "assumes no level name contains '/' (A-GRP)"),
    'C09': ("proved: work-split partition and index bound in _precompute_summary_stats_from_h5ad_and_lookup, "
            "row->cluster accumulation, merge_precompute_files (row of the file with most cells), truncation "
            "bookkeeping; bounded: statistics files recomputed directly for random labellings / splits / workers",
            "A-REAL (float sums); HDF5/anndata bodies abstracted; S-5 (ge1 tolerance) recorded"),
    'C10': ("proved: validate_taxonomy_tree normal return => strict tree, get_child_to_parent, "
            "_get_leaves_from_tree / convert_tree_to_leaves, get_all_leaf_pairs, _drop_level, flatten, parents/children; "
            "bounded: every tree shape <= 3 levels <= 5 leaves",
            "JSON round trip trusted; S-9/S-10 (duplicate level name / repeated child accepted by the validator) were fixed in /repo (ea18b24)"),
    'C11': ("proved: penetrance logic (completeness, floors, exact mode), score_differential_genes, "
            "q_score_from_pij / pij_from_stats, correct_ttest range facts, _get_validity_mask; bounded: Holm equality "
            "on p-value grids, both marker routes end to end against scipy Welch + Holm",
            "scipy t CDF trusted; A-REAL; S-7, N-2 recorded as open findings (S-4 fixed in /repo)"),
    'C12': ("proved: per-function selection contracts (_get_are_possible, _get_newly_full_mask, _get_maxed_out, "
            "_update_marker_counts, _update_been_filled incl. terminal case, recalculate_utility_array_batch, "
            "_choose_one_gene); bounded: select_all_markers on tiny marker tables (coverage >= min(2n, available))",
            "_run_selection main-loop invariant not proved (needs counting over sets): terminal property bounded"),
    'C13': ("proved: _calculate_csr_indptr, transposition outer loop (blocks consecutive, covering, terminating), "
            "parallel join layout, every create_dataset chunk precondition, merge_csr / indptr arithmetic, "
            "_get_slices_for_copy; bounded: every sparse pattern <= 3x3 (4x4 thorough) x budgets x slices, "
            "h5ad-level pivot/shuffle/subset/stack/copy",
            "h5py create_dataset precondition and dataset slicing semantics trusted; fill pass bounded only"),
    'C14': ("proved for all process lists / dicts: winnow_process_list, winnow_process_dict (raises iff a non-zero exit "
            "code is observed; a process leaves the pool only with exit code 0) and the dispatch/drain loops of all seven "
            "parallel stages (returns normally only if every started worker ended with exit code 0); run_mapping "
            "exceptional post-conditions (no results, no success line, log written); bounded: fault injection per "
            "stage x worker x mode x crash point",
            "A-PROC: Process.exitcode is None while running, stable once set, non-zero for every abnormal termination; "
            "parent killed / OS partial writes out of reach"),
    'C15': ("proved: re_order_blob, pure parts of the HDF5 result writer; bounded: blob -> HDF5 -> blob round trip, "
            "CSV rows / header / %.4f confidence, taxonomy to_str/from_str on generated blobs",
            "pandas CSV formatting and h5py bodies are outside the prover: this property is carried mostly by the bounded layer"),
    'C16': ("proved: choose_int_dtype (returned type holds every rounded value, first fitting candidate), "
            "GeneIdMapper.map_gene_identifiers clauses, min/max and rounding tilings, _validate_h5ad error logic and "
            "aliasing rejection; bounded: validate_h5ad on tiny files (input bytes unchanged, X equals layer, rounding "
            "<= 1/2 into a wide-enough type)",
            "anndata / h5py bodies trusted; is_ensembl regex bounded; S-6 recorded as open finding"),
    'C17': ("proved: _drop_level / flatten preserve leaf set and ancestors, tree_for_metadata captured before the "
            "reduction, marker validation iterates the reduced tree; bounded: drop_level / flatten runs equal runs on "
            "the reduced reference, absent level is a no-op",
            "equality of whole runs is a bounded (execution-level) clause; floats to 1e-9"),
    'C18': ("proved: the writer/reader interface of the statistics file by name - the buffer row of a cell is the row "
            "the file's own cluster_to_row table gives its cluster (_precompute...#split), read_raw_precomputed_stats "
            "returns row cluster_to_row[leaf] of every stored matrix and the file's gene names, aggregate_stats / "
            "read_precomputed_stats give mean = sum/max(1,n) under the key level/node, get_leaf_means returns the "
            "centroid of the cluster named cell_identifiers[i] with genes in file order, create_raw_marker_gene_lookup "
            "keys the marker table by the same level/node naming; bounded: stages compose on generated worlds and "
            "centroid queries map to themselves with probability 1 and correlation 1",
            "centroid clause is numerical: bounded only (1e-6); HDF5/JSON decoding modelled as a record of decoded "
            "datasets (A-STATSFILE, A-JSON); _prep_output_file bounded; assumes no level/node name contains '/' (A-GRP)"),
    'C19': ("proved: run_mapping leaves no scratch entry it created on every exit path, normal or exceptional "
            "(scratch ghost state, A-TMP); bounded: input hashes, directory snapshots, stale files, concurrent runs "
            "for every stage",
            "tempfile uniqueness (A-TMP) and _clean_up semantics trusted; __del__-based clean-up under A-DEL; "
            "histories and concurrent runs are bounded executions; F-19-2 fixed in /repo"),
    'C20': ("proved: every sink of run_mapping (JSON config, JSON log, log file) is sanitised when cloud_safe, on "
            "normal and exceptional exits (taint ghost); bounded: cloud-safe runs over directory layouts x failure "
            "scenarios, sanitize_paths on message templates",
            "sanitize_paths itself is a trusted contract at proof level (bounded; S-8 recorded); open set of "
            "third-party messages"),
}

# properties whose deciding clauses are executions (bounded stand-in), with only supporting facts proved
CATEGORY = {'C15': 'exploration'}
REFS = {p: f"DESIGN.md section 4 {p}" for p in CLAIMED}
NOT_APPLICABLE = {}


def main():
    props = [json.loads(l) for l in open(os.path.join(HERE, 'properties.jsonl'))]
    checks = []
    na = []
    for p in props:
        pid = p['id']
        if pid in CLAIMED:
            text, note = CLAIMED[pid]
            checks.append(dict(
                property_id=pid,
                quick_cmd=f"./check {pid} --tier quick",
                thorough_cmd=f"./check {pid} --tier thorough",
                evidence_file=f"evidence/{pid}.json",
                replay_cmd_template=f"./check {pid} --replay {{path}}",
                engine="pyvc",
                level_claimed=dict(category=CATEGORY.get(pid, 'proof'), text=text, design_ref=REFS[pid]),
                level_note=note, technique=TECH))
        else:
            na.append(dict(property_id=pid, reason=NOT_APPLICABLE.get(pid, "no check built")))
    m = dict(
        version=1,
        setup_cmd="bash setup.sh",
        hooks=dict(guard="CELL_TYPE_MAPPER_VERIF",
                   enable="no hooks: contracts are sidecar files under /verif/contracts; /repo is only read (ast) and imported",
                   baseline_off_cmd="cd /repo && /venv/bin/python -m pytest -ra -q -p no:cacheprovider --timeout=900 --continue-on-collection-errors",
                   source_commits=[], add_only=True),
        engines=[dict(name="pyvc", path="pyvc/", serves_properties=sorted(CLAIMED),
                      kind_free_text="AST -> verification-condition generator for a typed Python subset (forward "
                                     "symbolic execution, loop invariants, modular calls by contract, exception "
                                     "outcomes, ghost state), discharged by z3 5.1 / cvc5; the same contract clauses "
                                     "are executed natively for counter-example replay and bounded stand-ins")],
        checks=checks,
        notes="exit codes: 0 held, 1 VIOLATION, 3 checker error; a contract that no longer fits the source is printed as UNDECIDED and recorded in the evidence (exit 2 only with VERIF_STALE_EXIT=2). "
              "recorded findings and fixes: known_findings.json; seeded changes: seeded/",
        not_applicable=na)
    with open(os.path.join(HERE, 'MANIFEST.json'), 'w') as f:
        json.dump(m, f, indent=1)
    print(f"claimed {len(checks)} not_applicable {len(na)}")


if __name__ == '__main__':
    main()
