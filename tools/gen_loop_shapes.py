#!/usr/bin/env python3
"""guard G-S: writes /verif/contract_loop_shapes.json = {function view: loop shape} for every contract
whose invariants are keyed by a fixed loop ordinal (run with .venv/bin/python on the unchanged tree,
after the checks are green).  pyvc.verify reports "contract out of date" (exit 2) when the current
source has another loop structure, instead of proving invariants against the wrong loops."""
import json, os, sys
HERE = os.path.dirname(os.path.dirname(os.path.abspath(__file__)))
sys.path.insert(0, HERE)
import contracts                                        # noqa: E402
from pyvc.contracts import REGISTRY, find_function, DynamicLoops, loop_shape    # noqa: E402
contracts.load_all()
out = {}
plist = {}
for c in REGISTRY.by_name.values():
    if c.trusted or c.mode not in ('full', 'slice'):
        continue
    try:
        fn = find_function(c.qualname)[1]
    except Exception as e:
        print('skip', c.qualname, e)
        continue
    a = fn.args
    plist[c.qualname] = [x.arg for x in a.posonlyargs + a.args + a.kwonlyargs]
    if not c.loops or isinstance(c.loops, DynamicLoops):
        continue
    out[c.qualname] = loop_shape(fn)
json.dump(plist, open(os.path.join(HERE, 'contract_param_lists.json'), 'w'), indent=1, sort_keys=True)
print(len(plist), 'parameter lists written')
json.dump(out, open(os.path.join(HERE, 'contract_loop_shapes.json'), 'w'), indent=1, sort_keys=True)
print(len(out), 'loop shapes written')
