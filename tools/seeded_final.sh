#!/bin/bash
# tools/seeded_final.sh [seeded ids...]      (default: every directory under seeded/)
# acceptance run of the stored red-team changes against /repo itself:
#   demo.py on the unchanged tree (must exit 0), git -C /repo apply patch.diff, demo.py (must exit != 0),
#   ./check <property> --tier quick (must exit 1 with a VIOLATION line), git -C /repo checkout -- .
# /repo must be clean on entry; it is clean again on exit (also on interruption).
cd /verif
[ -z "$(git -C /repo status --porcelain --untracked-files=no)" ] || { echo "/repo not clean"; exit 3; }
trap 'git -C /repo checkout -- . ; find /repo/src /repo/tests -name "*.orig" -o -name "*.rej" | xargs -r rm -f' EXIT
IDS="$@"; [ -z "$IDS" ] && IDS=$(ls seeded | grep -E '^C[0-9]+_[0-9]+$')
for ID in $IDS; do
  D=seeded/$ID; PID=${ID%%_*}
  [ -f $D/patch.diff ] || continue
  (cd /repo && timeout 900 /venv/bin/python /verif/$D/demo.py > /verif/$D/demo_unchanged.log 2>&1); U=$?
  if ! git -C /repo apply --check /verif/$D/patch.diff 2>/dev/null; then
    # written against an older HEAD: re-base with patch(1) and store the refreshed diff
    if (cd /repo && patch -p1 -s --no-backup-if-mismatch < /verif/$D/patch.diff > /dev/null 2>&1); then
      git -C /repo diff > $D/patch.diff.new; git -C /repo checkout -- .
      mv $D/patch.diff.new $D/patch.diff
    else
      git -C /repo checkout -- .
      find /repo/src /repo/tests -name "*.orig" -o -name "*.rej" | xargs -r rm -f
      echo "$ID PATCH-DOES-NOT-APPLY"; echo '{"applies": false}' > $D/eval.json; continue
    fi
  fi
  git -C /repo apply /verif/$D/patch.diff
  (cd /repo && timeout 900 /venv/bin/python /verif/$D/demo.py > /verif/$D/demo_changed.log 2>&1); C=$?
  s=$(date +%s)
  timeout 3000 ./check $PID --tier quick > $D/check_$PID.log 2>&1; R=$?
  e=$(date +%s)
  git -C /repo checkout -- .
  echo "{\"applies\": true, \"demo_unchanged_exit\": $U, \"demo_changed_exit\": $C, \"checks\": \" $PID:$R\", \"wall_s\": $((e-s)), \"how\": \"git -C /repo apply; ./check $PID --tier quick; git -C /repo checkout -- .\"}" > $D/eval.json
  echo "$ID demo $U/$C check=$R wall=$((e-s))s $(grep -m1 'failed:' $D/check_$PID.log | cut -c1-140)"
done
