#!/usr/bin/env python3
"""round-2 prompt: as round 1, plus the list of changes already known for the property (to be avoided)"""
import json, sys, glob, os, subprocess
pid, wt = sys.argv[1], sys.argv[2]
base = subprocess.run(['python3', '/verif/tools/redteam_prompt.py', pid, wt], capture_output=True, text=True).stdout
known = []
for d in sorted(glob.glob(f'/verif/seeded/{pid}_*')) + sorted(glob.glob(f'/tmp/wt_{pid}/_seeded')):
    for m in sorted(glob.glob(os.path.join(d, 'meta*.json'))):
        try:
            j = json.load(open(m))
            s = j.get('summary')
            if s and s not in known:
                known.append(s)
        except Exception:
            pass
extra = ("\n\nIMPORTANT — this is a SECOND round. The following changes are already known; do NOT repeat them or "
         "close variants of them (same function and same mechanism). Pick different functions / stages / "
         "mechanisms covered by the property (the property spans several files: look at all the anchors, at "
         "helper functions they call, and at configuration plumbing between them):\n"
         + "\n".join(f"  - {s}" for s in known) + "\n")
print(base + extra)
