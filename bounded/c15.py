"""Bounded stand-in for C15 (never counted as proved): the three serialisations of a mapping result.

Small result blobs are generated together with a matching TaxonomyTree (depth 1-3, single-child and
multi-child parents, 0..k runners-up per cell and level, inferred (not directly assigned) levels,
node / cell names that need CSV quoting, name tables present / partial / absent) and pushed through
the real functions:

  hdf5-roundtrip   blob_to_hdf5 -> hdf5_to_blob reproduces every cell id, assignment, probability,
                   correlation, aggregate probability, directly-assigned flag and runner-up list, and
                   every non-result key of the blob (metadata JSON)
  hdf5-failed-run  a blob without 'results' (failed run) round-trips its metadata and has no result keys
  csv-header       comment lines: metadata file *name*, hierarchy, readable hierarchy iff different,
                   algorithm / codebase / version line
  csv-rows         one row per cell in blob order; <level>_label = JSON assignment, <level>_name /
                   <leaf>_alias through the name tables, <level>_<confidence label> = '%.4f' of the JSON
                   value (bootstrapping probability, or correlation for single-iteration runs)
  csv-columns      exactly: cell_id, then per level label, name, (alias at the leaf level), confidence
  tree-roundtrip   TaxonomyTree.to_str(drop_cells=True) -> from_str: same hierarchy, same parent ->
                   children lists at every level, leaf cell lists emptied, name tables preserved
"""
import csv
import io
import json
import os
import random
import shutil
import tempfile
import warnings

import numpy as np

NAMES = ['A', 'B', 'n1', 'n2', 'x,y', 'say "hi"', 'tab\tname', 'semi;colon', "it's", 'CS2023_0001', 'é', ' lead', '10', '9']
LEVEL_POOLS = [['class', 'subclass', 'cluster'], ['CCN_CLAS', 'CCN_SUBC', 'CCN_CLUS'], ['level one', 'l,2', 'leaf'],
               ['class_label', 'subclass_label', 'cluster_label']]


def gen_tree(rng):
    depth = rng.randint(1, 3)
    levels = list(rng.choice(LEVEL_POOLS)[-depth:])
    pool = list(NAMES)
    rng.shuffle(pool)
    data = {'hierarchy': levels}
    # build top-down: each node of a level gets 1..3 children at the next level
    n_top = rng.randint(1, 3)
    cur = [f'{pool[k % len(pool)]}#{levels[0][:2]}{k}' if rng.random() < 0.5 else f'{levels[0][:3]}_{k}'
           for k in range(n_top)]
    ct = 0
    for li, lvl in enumerate(levels):
        data[lvl] = {}
        nxt = []
        for node in cur:
            if li == len(levels) - 1:
                n_cells = rng.randint(1, 2)
                data[lvl][node] = list(range(ct, ct + n_cells))
                ct += n_cells
            else:
                kids = []
                for _ in range(rng.choice([1, 1, 2, 3])):
                    nm = rng.choice(pool) + f'|{levels[li + 1][:2]}{len(nxt)}'
                    kids.append(nm)
                    nxt.append(nm)
                data[lvl][node] = kids
        cur = nxt
    tables = rng.choice(['none', 'full', 'partial', 'hierarchy-only'])
    if tables in ('full', 'partial'):
        nm = {}
        for lvl in levels:
            nm[lvl] = {}
            for node in data[lvl]:
                if tables == 'partial' and rng.random() < 0.4:
                    continue
                entry = {'name': f'Name of {node}' if rng.random() < 0.8 else 'comma, name'}
                if rng.random() < 0.7:
                    entry['alias'] = f'alias-{len(nm[lvl])}'
                nm[lvl][node] = entry
            if tables == 'partial' and rng.random() < 0.3:
                del nm[lvl]
        data['name_mapper'] = nm
    if tables in ('full', 'hierarchy-only', 'partial'):
        hm = {lvl: f'readable {lvl}' for lvl in levels if tables != 'partial' or rng.random() < 0.6}
        if rng.random() < 0.15:
            hm = {lvl: lvl for lvl in levels}       # mapper present but identical: no readable line
        data['hierarchy_mapper'] = hm
    return data


def gen_blob(rng, tree_data):
    from cell_type_mapper.taxonomy.taxonomy_tree import TaxonomyTree
    tree = TaxonomyTree(data=tree_data)
    levels = tree.hierarchy
    k = rng.choice([0, 1, 2, 5])
    direct = {lvl: True for lvl in levels}
    if len(levels) > 1 and rng.random() < 0.4:          # a dropped / flattened level, backfilled
        for lvl in rng.sample(levels[:-1], rng.randint(1, len(levels) - 1)):
            direct[lvl] = False
    n_cells = rng.randint(1, 5)
    ids = rng.sample(['cell_a', 'cell,b', 'cell "c"', '10', '9', 'AAACCC-1', 'zé'], n_cells)
    parents = tree._child_to_parent
    results = []
    for cid in ids:
        cell = {'cell_id': cid}
        leaf = rng.choice(tree.nodes_at_level(levels[-1]))
        node = leaf
        agg = 1.0
        for lvl in reversed(levels):
            nodes = tree.nodes_at_level(lvl)
            rec = {'assignment': node,
                   'bootstrapping_probability': rng.choice([1.0, 0.5, 0.25, 1 / 3, 0.12345, 0.99995, 0.00004]),
                   'avg_correlation': rng.choice([1.0, -0.25, 0.333333, 0.87654321, 0.00005, -1.0]),
                   'aggregate_probability': rng.random(),
                   'directly_assigned': direct[lvl]}
            if direct[lvl]:
                others = [x for x in nodes if x != node]
                m = rng.randint(0, min(k, len(others)))
                ru = rng.sample(others, m)
                rec['runner_up_assignment'] = ru
                rec['runner_up_probability'] = [round(rng.random(), 5) + 0.001 for _ in ru]
                rec['runner_up_correlation'] = [rng.uniform(-1, 1) for _ in ru]
            cell[lvl] = rec
            if lvl != levels[0]:
                node = parents[lvl][node]
        results.append(cell)
    blob = {
        'results': results,
        'taxonomy_tree': json.loads(tree.to_str(drop_cells=True)),
        'config': {'type_assignment': {'n_runners_up': k, 'bootstrap_iteration': rng.choice([1, 100])},
                   'flatten': rng.random() < 0.3, 'query_path': '/some/where/q.h5ad'},
        'metadata': {'timestamp': 'now', 'n_mapped_cells': n_cells},
        'log': ['line one', 'line, "two"'],
        'marker_genes': {'None': ['g1', 'g2'], 'class/A': ['g3']},
    }
    return tree, blob, k


def _eq_num(a, b):
    return float(a) == float(b)


def check_hdf5(tree, blob, d, fail):
    from cell_type_mapper.utils.output_utils import blob_to_hdf5, hdf5_to_blob
    path = os.path.join(d, 'out.h5')
    blob_to_hdf5(output_blob=blob, dst_path=path)
    back = hdf5_to_blob(path)
    for key in blob:
        if key == 'results':
            continue
        if back.get(key) != json.loads(json.dumps(blob[key])):
            fail('hdf5-roundtrip', f'key {key}: {back.get(key)!r} != {blob[key]!r}')
    if set(back) != set(blob):
        fail('hdf5-roundtrip', f'keys {sorted(back)} != {sorted(blob)}')
    res0, res1 = blob['results'], back.get('results', [])
    if len(res0) != len(res1):
        fail('hdf5-roundtrip', f'{len(res0)} cells -> {len(res1)}')
        return
    for c0, c1 in zip(res0, res1):
        if c0['cell_id'] != c1['cell_id']:
            fail('hdf5-roundtrip', f"cell id {c0['cell_id']!r} -> {c1['cell_id']!r}")
        if set(c0) != set(c1):
            fail('hdf5-roundtrip', f'cell keys {sorted(c0)} -> {sorted(c1)}')
            continue
        for lvl in tree.hierarchy:
            a, b = c0[lvl], c1[lvl]
            if set(a) != set(b):
                fail('hdf5-roundtrip', f'{lvl}: fields {sorted(a)} -> {sorted(b)}')
                continue
            if a['assignment'] != b['assignment']:
                fail('hdf5-roundtrip', f"{lvl}: assignment {a['assignment']!r} -> {b['assignment']!r}")
            for f in ('bootstrapping_probability', 'avg_correlation', 'aggregate_probability'):
                if not _eq_num(a[f], b[f]):
                    fail('hdf5-roundtrip', f'{lvl}.{f}: {a[f]!r} -> {b[f]!r}')
            if bool(a['directly_assigned']) != bool(b['directly_assigned']):
                fail('hdf5-roundtrip', f'{lvl}.directly_assigned flipped')
            if 'runner_up_assignment' in a:
                if list(a['runner_up_assignment']) != list(b['runner_up_assignment']):
                    fail('hdf5-roundtrip', f"{lvl}: runners-up {a['runner_up_assignment']} -> {b['runner_up_assignment']}")
                for f in ('runner_up_probability', 'runner_up_correlation'):
                    if len(a[f]) != len(b[f]) or not all(_eq_num(x, y) for x, y in zip(a[f], b[f])):
                        fail('hdf5-roundtrip', f'{lvl}.{f}: {a[f]} -> {b[f]}')
    # failed run: no results
    failed = {k: v for k, v in blob.items() if k not in ('results',)}
    p2 = os.path.join(d, 'failed.h5')
    blob_to_hdf5(output_blob=failed, dst_path=p2)
    back2 = hdf5_to_blob(p2)
    if 'results' in back2 or back2 != json.loads(json.dumps(failed)):
        fail('hdf5-failed-run', f'{back2!r}')


def check_csv(tree, blob, d, rng, fail):
    import cell_type_mapper
    from cell_type_mapper.utils.output_utils import blob_to_csv
    path = os.path.join(d, 'out.csv')
    single = blob['config']['type_assignment']['bootstrap_iteration'] == 1
    ckey, clabel = ('avg_correlation', 'correlation_coefficient') if single else \
        ('bootstrapping_probability', 'bootstrapping_probability')
    meta = rng.choice([None, '/abs/dir/result file.json', 'rel/r.json'])
    config = rng.choice([None, blob['config']])
    blob_to_csv(results_blob=blob['results'], taxonomy_tree=tree, output_path=path, confidence_key=ckey,
                confidence_label=clabel, metadata_path=meta, config=config)
    verify_csv(path, tree, blob, ckey, clabel, meta, config, fail)


def verify_csv(path, tree, blob, ckey, clabel, meta, config, fail):
    """the CSV file at `path` against the statement of C15, given the taxonomy `tree` of the JSON output"""
    import cell_type_mapper
    with open(path, newline='') as f:
        text = f.read()
    lines = text.split('\n')
    comments = [ln for ln in lines if ln.startswith('#')]
    n_comment = 0
    while n_comment < len(lines) and lines[n_comment].startswith('#'):
        n_comment += 1
    want = []
    if meta is not None:
        want.append(f'# metadata = {os.path.basename(meta)}')
    want.append(f'# taxonomy hierarchy = {json.dumps(tree.hierarchy)}')
    readable = [tree.level_to_name(lv) for lv in tree.hierarchy]
    if readable != tree.hierarchy:
        want.append(f'# readable taxonomy hierarchy = {json.dumps(readable)}')
    v = '#'
    if config is not None:
        v += " algorithm: 'correlation';" if config['flatten'] else " algorithm: 'hierarchical';"
    v += f' codebase: {cell_type_mapper.__repository__}; version: {cell_type_mapper.__version__}'
    want.append(v)
    if lines[:n_comment] != want:
        fail('csv-header', f'{lines[:n_comment]} != {want}')
    body = '\n'.join(lines[n_comment:])
    rows = list(csv.reader(io.StringIO(body)))
    rows = [r for r in rows if r]
    header, rows = rows[0], rows[1:]
    cols = ['cell_id']
    for lv, rd in zip(tree.hierarchy, readable):
        cols += [f'{rd}_label', f'{rd}_name']
        if lv == tree.leaf_level:
            cols.append(f'{rd}_alias')
        cols.append(f'{rd}_{clabel}')
    tag = ''
    if any(w in rd for rd in readable for w in ('label', 'name', 'alias')):
        tag = " [S-15: a level name containing 'label' / 'name' / 'alias' defeats the column filter]"
    if header != cols:
        fail('csv-columns' + tag, f'{header} != {cols}')
    if len(rows) != len(blob['results']):
        fail('csv-rows' + tag, f"{len(rows)} rows for {len(blob['results'])} cells")
        return
    for row, cell in zip(rows, blob['results']):
        rec = dict(zip(header, row))
        exp = {'cell_id': cell['cell_id']}
        for lv, rd in zip(tree.hierarchy, readable):
            lab = cell[lv]['assignment']
            exp[f'{rd}_label'] = lab
            exp[f'{rd}_name'] = tree.label_to_name(level=lv, label=lab, name_key='name')
            if lv == tree.leaf_level:
                exp[f'{rd}_alias'] = tree.label_to_name(level=lv, label=lab, name_key='alias')
            exp[f'{rd}_{clabel}'] = '%.4f' % cell[lv][ckey]
        for k_, v_ in exp.items():
            if rec.get(k_) != v_:
                # (with S-15 the surviving columns are also turned into categories, which defeats '%.4f')
                fail('csv-rows' + tag, f'cell {cell["cell_id"]!r} column {k_!r}: {rec.get(k_)!r} != {v_!r}')


def check_tree(tree_data, fail):
    from cell_type_mapper.taxonomy.taxonomy_tree import TaxonomyTree
    tree = TaxonomyTree(data=tree_data)
    s = tree.to_str(drop_cells=True)
    back = TaxonomyTree.from_str(s)
    if back.hierarchy != tree.hierarchy:
        fail('tree-roundtrip', f'hierarchy {tree.hierarchy} -> {back.hierarchy}')
    for lvl in tree.hierarchy:
        if back.nodes_at_level(lvl) != tree.nodes_at_level(lvl):
            fail('tree-roundtrip', f'{lvl}: nodes {tree.nodes_at_level(lvl)} -> {back.nodes_at_level(lvl)}')
        for node in tree.nodes_at_level(lvl):
            a, b = tree_data[lvl][node], back._data[lvl].get(node)
            if lvl == tree.leaf_level:
                if b != []:
                    fail('tree-roundtrip', f'leaf {node!r} still lists cells: {b}')
            elif list(a) != list(b):
                fail('tree-roundtrip', f'{lvl}/{node!r}: children {a} -> {b}')
    for key in ('name_mapper', 'hierarchy_mapper'):
        if tree_data.get(key) != back._data.get(key):
            fail('tree-roundtrip', f'{key} changed')
    if set(back._data) != set(tree_data):
        fail('tree-roundtrip', f'keys {sorted(tree_data)} -> {sorted(back._data)}')
    # the full serialisation keeps the cells
    full = TaxonomyTree.from_str(tree.to_str())
    if full._data != json.loads(json.dumps(tree_data)):
        fail('tree-roundtrip', 'to_str() -> from_str() changed the tree')


RUN_ENTRY = 'cell_type_mapper.cli.from_specified_markers.run_mapping'
RUN_CLAUSES = ['run: csv-header', 'run: csv-columns', 'run: csv-rows', 'run: hdf5 equals json',
               'run: embedded taxonomy is the input taxonomy without its cell lists']


def _run_level_task(task):
    """one real mapping run with CSV and HDF5 outputs; -> list of dict(clause, observed, args)"""
    from bounded import fixture as fx
    import traceback
    from cell_type_mapper.taxonomy.taxonomy_tree import TaxonomyTree
    from cell_type_mapper.utils.output_utils import hdf5_to_blob
    out = []
    with fx.scratch() as d:
        try:
            world = fx.build_world(d, task['seed'], **task['world'])
        except BaseException as e:   # noqa
            return [dict(status='harness-error', error='world build: ' + fx.package_error_text(e) +
                         traceback.format_exc()[-800:])]
        h = world.hierarchy
        variants = [dict()] + [dict(drop_level=lv) for lv in h[:-1]] + ([dict(flatten=True)] if len(h) > 1 else [])
        for var in variants:
            for iters in task['iterations']:
                cfg = dict(var, bootstrap_iteration=iters, csv=True, hdf5=True, n_processors=1, chunk_size=5)
                args = dict(build_world=dict(seed=task['seed'], **task['world']), config=cfg)

                def fail(clause, observed, _args=args):
                    out.append(dict(clause='run: ' + clause.split(' [')[0] if not clause.startswith('run: ') else clause,
                                    status='ok', observed=str(observed)[:500], args=_args))
                try:
                    blob, paths = fx.run_mapping_world(world, fx.mapping_config(world, **cfg))
                except Exception as e:   # noqa
                    if not fx.escaped_from_package(e):
                        out.append(dict(clause=RUN_CLAUSES[0], status='harness-error',
                                        observed=traceback.format_exc()[-900:], args=args))
                    continue
                n_before = len(out)
                try:
                    tree = TaxonomyTree(data=blob['taxonomy_tree']) if isinstance(blob['taxonomy_tree'], dict) \
                        else TaxonomyTree.from_str(blob['taxonomy_tree'])
                    # the embedded taxonomy is the stored (input) taxonomy, cells dropped
                    if tree.hierarchy != list(h):
                        fail(RUN_CLAUSES[4], f"hierarchy {tree.hierarchy} != {list(h)}")
                    else:
                        for lv in h[:-1]:
                            got = {n: sorted(tree.children(lv, n)) for n in tree.nodes_at_level(lv)}
                            want = {n: sorted(k) for n, k in world.spec[lv].items()}
                            if got != want:
                                fail(RUN_CLAUSES[4], f"{lv}: {got} != {want}")
                        if sorted(tree.nodes_at_level(h[-1])) != sorted(world.leaves):
                            fail(RUN_CLAUSES[4], f"leaves {sorted(tree.nodes_at_level(h[-1]))} != {sorted(world.leaves)}")
                    single = iters == 1
                    ckey, clabel = ('avg_correlation', 'correlation_coefficient') if single else \
                        ('bootstrapping_probability', 'bootstrapping_probability')
                    verify_csv(paths['csv'], tree, blob, ckey, clabel, paths['json'], blob['config'], fail)
                    back = hdf5_to_blob(paths['hdf5'])
                    want = json.loads(json.dumps(blob))
                    for key in sorted(set(want) | set(back)):
                        if key == 'results':
                            continue
                        if back.get(key) != want.get(key):
                            fail(RUN_CLAUSES[3], f"{key!r}: hdf5 {str(back.get(key))[:120]} != json {str(want.get(key))[:120]}")
                    r0, r1 = want.get('results', []), back.get('results', [])
                    if [c['cell_id'] for c in r0] != [c['cell_id'] for c in r1]:
                        fail(RUN_CLAUSES[3], 'cell ids differ')
                    else:
                        for c0, c1 in zip(r0, r1):
                            for lv in tree.hierarchy:
                                if lv not in c1 or not fx.records_equal(c0[lv], c1[lv], 1e-12):
                                    fail(RUN_CLAUSES[3], f"cell {c0['cell_id']} level {lv}: hdf5 {str(c1.get(lv))[:150]} "
                                                         f"!= json {str(c0[lv])[:150]}")
                                    break
                except Exception:   # noqa
                    out.append(dict(clause=RUN_CLAUSES[0], status='harness-error',
                                    observed=traceback.format_exc()[-900:], args=args))
                if len(out) == n_before:
                    out.append(dict(clause=RUN_CLAUSES[0], status='ok', observed=None, args=args))
    return out


def run_level(tier, seed, jobs):
    from bounded import fixture as fx
    from bounded import c06
    import traceback
    quick = tier == 'quick'
    shapes = ['d3_bal', 'd3_reuse'] if quick else ['d3_bal', 'd3_reuse', 'd3_chain', 'd2_single_child', 'd1_four',
                                                   'd3_top_single']
    tasks = [dict(seed=int(seed) + i, world=dict(taxonomy=s, n_query=5, encoding=['dense', 'csr', 'csc'][i % 3]),
                  iterations=[1, 4]) for i, s in enumerate(shapes)]
    bound = (f"{len(shapes)} taxonomy shapes x {{plain, every droppable level dropped, flatten}} x bootstrap_iteration "
             "{1, 4}; 5 query cells; CSV and HDF5 written by the real run and compared with its JSON output")
    row = fx.new_row(RUN_ENTRY, 'seeded-random', bound, RUN_CLAUSES)
    try:
        rows = {c: row for c in RUN_CLAUSES}
        results = fx.parallel_map(_run_level_task, tasks, jobs)
        fixed = []
        for status, val in results:
            if status == 'ok':
                for rec in val:
                    if rec.get('clause') not in rows and 'clause' in rec:
                        rec['clause'] = RUN_CLAUSES[2] if 'rows' in rec['clause'] else \
                            RUN_CLAUSES[1] if 'columns' in rec['clause'] else RUN_CLAUSES[0]
            fixed.append((status, val))
        c06.collect(rows, fixed, row)
    except BaseException:   # noqa
        fx.add_error(row, traceback.format_exc()[-2000:])
    return fx.finish_row(row)


def run(tier='quick', seed=0, jobs=1):
    import sys
    import time
    repo = os.environ.get('VERIF_REPO', '/repo')
    if os.path.join(repo, 'src') not in sys.path:
        sys.path.insert(0, os.path.join(repo, 'src'))
    budget = 25.0 if tier == 'quick' else 200.0
    max_cases = 600 if tier == 'quick' else 12000
    rng = random.Random(seed * 104729 + 15)
    root = tempfile.mkdtemp(dir='/tmp', prefix='verif_c15_')
    t0 = time.time()
    out = {'hdf5': [0, set(), []], 'csv': [0, set(), []], 'tree': [0, set(), []]}
    n_known = 0
    try:
        idx = 0
        while idx < max_cases and time.time() - t0 < budget:
            idx += 1
            tree_data = gen_tree(rng)
            with warnings.catch_warnings():
                warnings.simplefilter('ignore')
                tree, blob, k = gen_blob(rng, tree_data)
                key = json.dumps([tree_data, blob['results']], sort_keys=True, default=str)
                for name, fn in (('hdf5', lambda f: check_hdf5(tree, blob, d, f)),
                                 ('csv', lambda f: check_csv(tree, blob, d, rng, f)),
                                 ('tree', lambda f: check_tree(tree_data, f))):
                    d = tempfile.mkdtemp(dir=root, prefix='case_')
                    fails = []

                    def fail(clause, observed, _f=fails):
                        _f.append(dict(clause=clause, kind='clause',
                                       args=dict(tree=tree_data, n_runners_up=k,
                                                 results=blob['results'] if name != 'tree' else None),
                                       observed=str(observed)[:500]))
                    try:
                        fn(fail)
                    except Exception as e:      # noqa
                        import traceback
                        fails.append(dict(clause=f'{name}: no exception', kind='exception',
                                          args=dict(tree=tree_data, n_runners_up=k, results=blob['results']),
                                          observed=f'{type(e).__name__}: {e}\n{traceback.format_exc()[-500:]}'))
                    shutil.rmtree(d, ignore_errors=True)
                    out[name][0] += 1
                    out[name][1].add(key)
                    for f in fails:
                        known = 'S-15' in f['clause']
                        n_known += known
                        if len(out[name][2]) < 6 and (not known or n_known <= 2):
                            out[name][2].append(f)
    finally:
        shutil.rmtree(root, ignore_errors=True)
    bound = ('trees of depth 1-3 (1-3 top nodes, 1-3 children per node, single-child chains), 1-5 cells, '
             'n_runners_up in {0,1,2,5} with 0..k listed per cell and level, inferred levels, names with '
             'comma / quote / tab / unicode, name tables none / full / partial / hierarchy-only')
    fn = {'hdf5': 'cell_type_mapper.utils.output_utils.blob_to_hdf5+hdf5_to_blob',
          'csv': 'cell_type_mapper.utils.output_utils.blob_to_csv',
          'tree': 'cell_type_mapper.taxonomy.taxonomy_tree.TaxonomyTree.to_str+from_str'}
    clauses = {'hdf5': ['hdf5-roundtrip', 'hdf5-failed-run'], 'csv': ['csv-header', 'csv-rows', 'csv-columns'],
               'tree': ['tree-roundtrip']}
    rows = [dict(function=fn[n], form='seeded-random over explicit boundary classes', bound=bound,
                 cases=out[n][0], accepted=out[n][0], distinct=len(out[n][1]), failures=out[n][2],
                 clauses=clauses[n]) for n in ('hdf5', 'csv', 'tree')]
    rows.append(run_level(tier, seed, jobs))
    return rows


if __name__ == '__main__':
    import sys
    sys.path.insert(0, '/verif')
    res = run(tier=sys.argv[1] if len(sys.argv) > 1 else 'quick', seed=int(sys.argv[2]) if len(sys.argv) > 2 else 0)
    for r in res:
        print(json.dumps({k: v for k, v in r.items() if k != 'failures'}, default=str)[:500])
        for f in r['failures']:
            print('   FAIL', json.dumps(f, default=str)[:1800])
