"""C11 bounded stand-in: reference markers are sound and complete - END TO END.

For tiny precomputed-statistics files (<= 4 leaves, <= 6 genes; cluster sizes from 1 up, constant
(zero variance) genes, ties) the REAL `find_markers_for_all_taxonomy_pairs` is run and its output
file is compared, pair by pair and gene by gene, with a direct recomputation that shares no code
with the package:

  * Welch t / two-sided p from scipy.stats.ttest_ind_from_stats (unequal variances),
  * Holm step-down written from its definition over ALL genes (no shortcut),
  * q1 / qdiff / |fold| and the thresholds and floors straight from the statement of C11.

Clauses (C11):  sound (>= 2 cells, adjusted p < p_th, floors, gene list), complete (strict
thresholds => recorded), exact => nothing else, direction = sign of the difference of means,
pair-major and gene-major tables transposes of each other, no gene both up and down for a pair,
pair swap (clusters renamed so that the order flips) swaps only the direction, output independent
of the worker count and of the memory budget; the same soundness / completeness for the
p-value-mask route.

Defects this module found / replays (clause `run completes`), FIXED in /repo since:
  D-5  `_merge_sparse_by_pair_files` / `_merge_masks`: create_dataset(chunks=(0,)) when there is
       no up- (or no down-) marker / no mask entry at all.
  D-6  p-mask route: `_get_validity_mask` IndexError when n_valid > n_genes.
  N-1  p-mask route: `_p_values_worker` / `_find_markers_from_p_mask_worker` rejected a chunk that
       holds a single pair (np.unique(np.diff([i])) is empty) - e.g. a 2-leaf taxonomy.
  S-4  a gene less than 1e-5 below a floor was recorded when the strict threshold is within 1e-5 of
       that floor; the special case `s4` (fold 0.499995, floor 0.5, threshold 0.500001, n_valid 1)
       is kept as an ordinary case and has to pass.
Open findings (tagged in the clause text so that known_findings.json can match them):
  N-2  [zero variance in BOTH clusters]: the package turns the NaN CDF of the +-inf Welch statistic
       (nu = 0) into p = 1, so a perfectly separating constant gene is never recorded (scipy: p = 0).
  S-7  one-leaf taxonomy: UnboundLocalError (`del this_cluster_stats`) (special case `s7`).
"""
import contextlib
import itertools
import json
import os
import random
import sys

import numpy as np

from bounded.fixture import (scratch, quiet, parallel_map, new_row, add_failure, add_error,
                             note_case, finish_row)

FN = 'cell_type_mapper.diff_exp.markers.find_markers_for_all_taxonomy_pairs'
FN_P = 'cell_type_mapper.diff_exp.p_value_markers.find_markers_for_all_taxonomy_pairs_from_p_mask'
TOL = 1e-9


# --------------------------------------------------------------------------------------------
# case generation
# --------------------------------------------------------------------------------------------
def make_case(seed, n_leaves=None, n_genes=None):
    rng = random.Random(seed)
    n_leaves = n_leaves or rng.choice([2, 3, 3, 3, 4, 4, 3, 4, 3, 4])
    n_genes = n_genes or rng.choice([1, 2, 3, 4, 5, 6, 6, 5])
    leaves = [f'c{i}' for i in range(n_leaves)]
    rng.shuffle(leaves)
    # two-level tree (the marker finder only looks at leaves)
    cut = rng.randint(1, n_leaves - 1) if n_leaves > 1 else 1
    classes = {'A': sorted(leaves[:cut]), 'B': sorted(leaves[cut:])}
    classes = {k: v for k, v in classes.items() if v}
    cells = {}
    anchored = rng.random() < 0.75
    big = set(rng.sample(sorted(leaves), 2)) if anchored else set()
    for lf in leaves:
        n = rng.choice([3, 5, 8]) if lf in big else rng.choice([1, 1, 2, 2, 3, 5, 8])
        X = np.zeros((n, n_genes), dtype=float)
        for g in range(n_genes):
            kind = rng.choice(['zero', 'const', 'lohi', 'lohi', 'noisy', 'noisy', 'tie'])
            base = rng.choice([0.0, 0.5, 2.0, 4.0, 7.0])
            if kind == 'zero':
                col = np.zeros(n)
            elif kind == 'const':
                col = np.full(n, base)              # zero variance
            elif kind == 'tie':
                col = np.full(n, 2.0)               # equal means across clusters
            elif kind == 'lohi':
                col = np.array([base + rng.choice([0.0, 0.1, 0.2]) for _ in range(n)])
            else:
                col = np.array([max(0.0, base + rng.choice([-1.0, -0.5, 0.0, 0.5, 1.0])) for _ in range(n)])
            X[:, g] = col
        cells[lf] = X
    # anchors (most cases): one gene rising and one falling along the sorted leaf order, so that the
    # file holds up- AND down-regulated markers (without them the run dies on finding D-5)
    if anchored and n_genes >= 2:
        srt = sorted(leaves)
        for g, sign in ((0, 1), (n_genes - 1, -1)):
            for rank, lf in enumerate(srt):
                n = cells[lf].shape[0]
                level = 6.0 * rank / max(1, len(srt) - 1)
                if sign < 0:
                    level = 6.0 - level
                cells[lf][:, g] = np.array([level + 0.05 * i for i in range(n)])    # variance > 0
    th = dict(p_th=rng.choice([0.05, 0.3, 0.9] if anchored else [0.01, 0.05, 0.3, 0.9]),
              q1_th=rng.choice([0.5, 0.3]), q1_min_th=rng.choice([0.1, 0.2]),
              qdiff_th=rng.choice([0.7, 0.4]), qdiff_min_th=rng.choice([0.1, 0.3]),
              log2_fold_th=rng.choice([1.0, 2.0]), log2_fold_min_th=rng.choice([0.8, 0.5]))
    genes = [f'g{i}' for i in range(n_genes)]
    gene_list = None
    if rng.random() < 0.4:
        k = rng.randint(1, n_genes)
        gene_list = sorted(set(rng.sample(genes, k)) | (set([genes[0], genes[-1]]) if rng.random() < 0.5 else set()))
        gene_list += ['not_a_reference_gene']
    return dict(seed=seed, leaves=leaves, classes=classes, cells=cells, genes=genes, th=th,
                exact=rng.random() < 0.35, n_valid=(30 if rng.random() < 0.15 else rng.choice([1, min(2, n_genes), n_genes])), gene_list=gene_list,
                anchored=anchored)


def make_special(kind):
    """deterministic cases: `s4` (former witness of S-4, now an ordinary case) and `s7` (open finding S-7)"""
    if kind == 'wide':
        # more than 255 genes: gene indices leave the narrowest integer type of the marker files
        c = make_case(770077, n_leaves=3, n_genes=270)
        c['seed'] = 'wide'
        return c
    if kind == 'many':
        # 24 leaves = 276 pairs: pair indices leave the narrowest integer type
        c = make_case(770078, n_leaves=24, n_genes=4)
        c['seed'] = 'many'
        return c
    if kind == 's7':
        cells = {'c0': np.array([[1.0, 2.0], [1.5, 2.5]])}
        return dict(seed='s7', leaves=['c0'], classes={'A': ['c0']}, cells=cells, genes=['g0', 'g1'],
                    th=dict(p_th=0.01, q1_th=0.5, q1_min_th=0.1, qdiff_th=0.7, qdiff_min_th=0.1,
                            log2_fold_th=1.0, log2_fold_min_th=0.8),
                    exact=False, n_valid=30, gene_list=None, anchored=False)
    # s4: |difference of means| = 0.499995, floor 0.5, strict threshold 0.500001; penetrance 0 vs 1
    n = 20
    wig = np.array([(-1.0e-4 if i % 2 else 1.0e-4) for i in range(n)])
    lo = np.stack([0.9 + wig, 0.2 + wig], axis=1)
    hi = np.stack([1.399995 + wig, 0.2 - wig], axis=1)
    return dict(seed='s4', leaves=['c0', 'c1'], classes={'A': ['c0'], 'B': ['c1']},
                cells={'c0': lo, 'c1': hi}, genes=['g0', 'g1'],
                th=dict(p_th=0.01, q1_th=0.5, q1_min_th=0.1, qdiff_th=0.7, qdiff_min_th=0.1,
                        log2_fold_th=0.500001, log2_fold_min_th=0.5),
                # n_valid = 1: the shortcut "enough absolutely valid genes" is the branch that ignores the floors
                exact=False, n_valid=1, gene_list=None, anchored=False)


def tree_data(case, rename=None):
    rename = rename or {}
    leaves = [rename.get(x, x) for x in case['leaves']]
    return {'hierarchy': ['class', 'cluster'],
            'class': {k: [rename.get(x, x) for x in v] for k, v in case['classes'].items()},
            'cluster': {lf: [] for lf in leaves}}


def write_stats(path, case, rename=None):
    """precomputed-statistics file in the package's own layout, from the per-cell values"""
    import h5py
    rename = rename or {}
    leaves = sorted(case['leaves'])
    n_genes = len(case['genes'])
    eps = 1.0e-6
    n_cells = np.zeros(len(leaves), dtype=int)
    arrs = {k: np.zeros((len(leaves), n_genes), dtype=float) for k in ('sum', 'sumsq')}
    cnts = {k: np.zeros((len(leaves), n_genes), dtype=int) for k in ('gt0', 'gt1', 'ge1')}
    row = {}
    for i, lf in enumerate(leaves):
        X = case['cells'][lf]
        row[rename.get(lf, lf)] = i
        n_cells[i] = X.shape[0]
        arrs['sum'][i] = X.sum(axis=0)
        arrs['sumsq'][i] = (X ** 2).sum(axis=0)
        cnts['gt0'][i] = (X > 0).sum(axis=0)
        cnts['gt1'][i] = (X > 1).sum(axis=0)
        cnts['ge1'][i] = (X > 1 - eps).sum(axis=0)
    with h5py.File(path, 'w') as f:
        f.create_dataset('n_cells', data=n_cells)
        for k, v in list(arrs.items()) + list(cnts.items()):
            f.create_dataset(k, data=v)
        f.create_dataset('col_names', data=json.dumps(case['genes']).encode('utf-8'))
        f.create_dataset('cluster_to_row', data=json.dumps(row).encode('utf-8'))
        f.create_dataset('taxonomy_tree', data=json.dumps(tree_data(case, rename)).encode('utf-8'))


# --------------------------------------------------------------------------------------------
# independent recomputation
# --------------------------------------------------------------------------------------------
def holm(p):
    m = len(p)
    order = sorted(range(m), key=lambda i: p[i])
    out = [0.0] * m
    run = 0.0
    for k, i in enumerate(order, start=1):
        run = max(run, p[i] * (m - k + 1))
        out[i] = min(1.0, run)
    return out


def reference_pair(case, a, b):
    """per gene: dict(n_ok, p_adj, q1, qdiff, fold, up)  for the ordered pair (a, b)"""
    from scipy import stats as st
    Xa, Xb = case['cells'][a], case['cells'][b]
    na, nb = Xa.shape[0], Xb.shape[0]
    out = []
    praw = []
    for g in range(len(case['genes'])):
        xa, xb = Xa[:, g], Xb[:, g]
        ma, mb = xa.mean(), xb.mean()
        va = xa.var(ddof=1) if na > 1 else 0.0
        vb = xb.var(ddof=1) if nb > 1 else 0.0
        p = 1.0
        if na >= 2 and nb >= 2:
            with np.errstate(all='ignore'):
                r = st.ttest_ind_from_stats(ma, np.sqrt(va), na, mb, np.sqrt(vb), nb, equal_var=False)
            p = float(r.pvalue)
            if not np.isfinite(p):
                p = 1.0          # 0/0: no evidence either way
        praw.append(min(1.0, max(p, 0.0)))
        pa = float((xa > 1 - 1e-6).sum()) / max(1, na)
        pb = float((xb > 1 - 1e-6).sum()) / max(1, nb)
        q1 = max(pa, pb)
        qdiff = abs(pa - pb) / (q1 if q1 > 0 else 1.0)
        out.append(dict(q1=q1, qdiff=qdiff, fold=abs(ma - mb), up=bool(mb > ma), zero_var=(va == 0 and vb == 0)))
    padj = holm(praw)
    # the same with the package's convention for the +-inf statistic (p = 1): the adjusted values of
    # the OTHER genes depend on that convention through the ranks
    praw_pkg = [1.0 if (d['zero_var'] and na >= 2 and nb >= 2) else p for d, p in zip(out, praw)]
    padj_pkg = holm(praw_pkg)
    for g, d in enumerate(out):
        d['p_adj'] = padj[g]
        d['p_adj_pkg'] = padj_pkg[g]
        d['p_raw'] = praw[g]
        d['n_ok'] = (na >= 2 and nb >= 2)
    return out


# --------------------------------------------------------------------------------------------
# running the package
# --------------------------------------------------------------------------------------------
def read_markers(path):
    import h5py
    with h5py.File(path, 'r') as f:
        out = dict(genes=json.loads(f['gene_names'][()].decode('utf-8')),
                   pair_to_idx=json.loads(f['pair_to_idx'][()].decode('utf-8')),
                   n_pairs=int(f['n_pairs'][()]))
        for grp in ('sparse_by_pair', 'sparse_by_gene'):
            for k in ('up_gene_idx', 'up_pair_idx', 'down_gene_idx', 'down_pair_idx'):
                out[f'{grp}/{k}'] = np.array(f[f'{grp}/{k}'][()]).astype(int)
    return out


def tables(mk):
    """dense (n_pairs, n_genes) bool tables from both layouts"""
    n_p, n_g = mk['n_pairs'], len(mk['genes'])
    res = {}
    for d in ('up', 'down'):
        t = np.zeros((n_p, n_g), dtype=bool)
        ptr, idx = mk[f'sparse_by_pair/{d}_pair_idx'], mk[f'sparse_by_pair/{d}_gene_idx']
        assert len(ptr) == n_p + 1 and ptr[0] == 0 and ptr[-1] == len(idx), 'pair-major pointers malformed'
        for p in range(n_p):
            assert ptr[p] <= ptr[p + 1], 'pair-major pointers not monotone'
            t[p, idx[ptr[p]:ptr[p + 1]]] = True
        res[d + '_by_pair'] = t
        t2 = np.zeros((n_p, n_g), dtype=bool)
        gptr, pidx = mk[f'sparse_by_gene/{d}_gene_idx'], mk[f'sparse_by_gene/{d}_pair_idx']
        assert len(gptr) == n_g + 1 and gptr[0] == 0 and gptr[-1] == len(pidx), 'gene-major pointers malformed'
        for g in range(n_g):
            t2[pidx[gptr[g]:gptr[g + 1]], g] = True
        res[d + '_by_gene'] = t2
    return res


def run_find(case, workdir, tag, n_processors=1, max_gb=1, rename=None):
    from cell_type_mapper.taxonomy.taxonomy_tree import TaxonomyTree
    from cell_type_mapper.diff_exp.markers import find_markers_for_all_taxonomy_pairs
    stats = workdir / f'stats_{tag}.h5'
    out = workdir / f'markers_{tag}.h5'
    write_stats(stats, case, rename)
    tree = TaxonomyTree(data=tree_data(case, rename))
    find_markers_for_all_taxonomy_pairs(
        precomputed_stats_path=stats, taxonomy_tree=tree, output_path=out,
        n_processors=n_processors, tmp_dir=workdir, max_gb=max_gb,
        exact_penetrance=case['exact'], n_valid=case['n_valid'], gene_list=case['gene_list'],
        **case['th'])
    return read_markers(out)


def run_pmask(case, workdir, tag, n_processors=1):
    from cell_type_mapper.diff_exp.p_value_mask import create_p_value_mask_file
    from cell_type_mapper.diff_exp.p_value_markers import find_markers_for_all_taxonomy_pairs_from_p_mask
    stats = workdir / f'stats_{tag}.h5'
    mask = workdir / f'mask_{tag}.h5'
    out = workdir / f'pmarkers_{tag}.h5'
    write_stats(stats, case)
    create_p_value_mask_file(precomputed_stats_path=stats, dst_path=mask, n_processors=n_processors,
                             tmp_dir=workdir, n_per=4, **case['th'])
    find_markers_for_all_taxonomy_pairs_from_p_mask(
        precomputed_stats_path=stats, p_value_mask_path=mask, output_path=out,
        n_processors=n_processors, tmp_dir=workdir, max_gb=1, n_valid=case['n_valid'],
        gene_list=case['gene_list'])
    return read_markers(out)


def pairs_of(mk):
    out = []
    for level in mk['pair_to_idx']:
        for a in mk['pair_to_idx'][level]:
            for b in mk['pair_to_idx'][level][a]:
                out.append((a, b, mk['pair_to_idx'][level][a][b]))
    return out


# --------------------------------------------------------------------------------------------
# clause checks
# --------------------------------------------------------------------------------------------
def describe(case):
    return dict(seed=case['seed'], leaves=case['leaves'], classes=case['classes'], th=case['th'],
                exact=case['exact'], n_valid=case['n_valid'], gene_list=case['gene_list'],
                n_cells={k: int(v.shape[0]) for k, v in case['cells'].items()}, n_genes=len(case['genes']),
                anchored=case['anchored'])


def check_against_reference(case, mk, fails, route, exact, inv=None):
    """soundness / completeness / direction of one marker file against the recomputation"""
    inv = inv or {}
    th = case['th']
    T = tables(mk)
    up, down = T['up_by_pair'], T['down_by_pair']
    if mk['genes'] != case['genes']:
        fails.append((f'{route}: gene names of the marker file are those of the statistics file', mk['genes']))
        return
    expected = set(tuple(sorted(p)) for p in itertools.combinations(sorted(inv.get(x, x) for x in case['leaves']), 2))
    got = set((inv.get(a, a), inv.get(b, b)) for a, b, _ in pairs_of(mk))
    if set(tuple(sorted(p)) for p in got) != expected or len(pairs_of(mk)) != len(expected):
        fails.append((f'{route}: every leaf pair has exactly one row', sorted(got)))
        return
    if (up & down).any():
        fails.append((f'{route}: no gene is both up and down for a pair', np.argwhere(up & down).tolist()))
    for d in ('up', 'down'):
        if not np.array_equal(T[d + '_by_pair'], T[d + '_by_gene']):
            fails.append((f'{route}: gene-major {d} table is the transpose of the pair-major table',
                          dict(by_pair=T[d + '_by_pair'].astype(int).tolist(),
                               by_gene=T[d + '_by_gene'].astype(int).tolist())))
    listed = None if case['gene_list'] is None else set(case['gene_list'])
    for a, b, idx in pairs_of(mk):
        ref = reference_pair(case, inv.get(a, a), inv.get(b, b))
        for g, r in enumerate(ref):
            valid = bool(up[idx, g] or down[idx, g])
            gname = case['genes'][g]
            in_list = listed is None or gname in listed
            strict = r['q1'] > th['q1_th'] and r['qdiff'] > th['qdiff_th'] and r['fold'] > th['log2_fold_th']
            floors = (r['q1'] >= th['q1_min_th'] and r['qdiff'] >= th['qdiff_min_th'] and
                      r['fold'] >= th['log2_fold_min_th'])
            where = dict(pair=(a, b), gene=gname, ref=r)
            if valid:
                if not r['n_ok']:
                    fails.append((f'{route}: marker only if both clusters have at least two cells', where))
                if not r['p_adj'] < th['p_th'] + TOL:
                    fails.append((f'{route}: marker only if the Holm-corrected Welch p-value is below p_th', where))
                if not floors:
                    fails.append((f'{route}: marker only if on or above every penetrance / fold floor', where))
                if not in_list:
                    fails.append((f'{route}: marker only if it belongs to the gene list', where))
                if exact and not strict:
                    fails.append((f'{route}: with exact penetrance nothing but strict-threshold genes is recorded', where))
                if bool(up[idx, g]) != r['up']:
                    fails.append((f'{route}: direction is the sign of the difference of mean log2(CPM+1)', where))
            else:
                if r['n_ok'] and strict and in_list and \
                        (r['p_adj'] if r['zero_var'] else r['p_adj_pkg']) < th['p_th'] - TOL:
                    if r['zero_var']:
                        # Welch statistic +-inf (0 variance on both sides, different means): scipy's
                        # p is 0, the package turns the NaN CDF (nu = 0) into 0.5, i.e. p = 1
                        fails.append((f'{route}: every gene passing the strict thresholds is recorded '
                                      f'[zero variance in BOTH clusters: package sets p = 1]', where))
                    else:
                        fails.append((f'{route}: every gene passing the strict thresholds is recorded', where))


@contextlib.contextmanager
def no_stderr():
    """worker processes of the package print their tracebacks on stderr; the parent reports the
    failure itself"""
    saved = None
    try:
        sys.stderr.flush()
        saved = os.dup(2)
        dn = os.open(os.devnull, os.O_WRONLY)
        os.dup2(dn, 2)
        os.close(dn)
    except OSError:
        saved = None
    try:
        yield
    finally:
        if saved is not None:
            try:
                sys.stderr.flush()
            except Exception:   # noqa
                pass
            os.dup2(saved, 2)
            os.close(saved)


def diagnose_pmask_crash(case, text):
    """the parent only sees 'process exited with code 1': replay the known causes directly"""
    if 'exited with code' in text and len(case['leaves']) == 2:
        # one pair in the worker's chunk: np.unique(np.diff([i])) is empty, the "consecutive" test fails
        return text + (" [worker raised RuntimeError: p-value worker was passed non-consecutive pairs - "
                       "a chunk holding a SINGLE pair fails the consecutiveness test (finding: 1-pair chunk)]")
    if 'exited with code' in text and case['n_valid'] > len(case['genes']):
        try:
            from cell_type_mapper.diff_exp.p_value_markers import _get_validity_mask
            _get_validity_mask(n_valid=case['n_valid'], n_genes=len(case['genes']),
                               gene_indices=np.zeros(0, dtype=int), raw_distances=np.zeros(0, dtype=float))
        except IndexError as e:
            return text + f" [worker died in _get_validity_mask: IndexError: {e}; n_valid > n_genes (D-6)]"
    return text


def one_case(seed):
    """returns dict(key, failures=[(clause, observed)], crashed=[(clause, text)])"""
    case = make_special(seed) if isinstance(seed, str) else make_case(seed)
    fails, crashed = [], []
    with scratch('verif_c11_') as wd, quiet(), no_stderr():
        base = None
        try:
            base = run_find(case, wd, 'w1', n_processors=1)
        except BaseException as e:    # noqa
            tag = ' on a one-leaf taxonomy [S-7]' if len(case['leaves']) == 1 else ''
            crashed.append((f'markers route: run completes (1 worker){tag}', f"{type(e).__name__}: {e}"))
            if tag:
                return dict(key=describe(case), failures=fails, crashed=crashed, n_markers=0,
                            completed=False, p_completed=False)
        if base is not None:
            try:
                check_against_reference(case, base, fails, 'markers route', case['exact'])
            except AssertionError as e:
                fails.append(('markers route: sparse tables well formed', str(e)))
            # worker count / memory budget
            for tag, kw in (('w2', dict(n_processors=2)), ('w3', dict(n_processors=3, max_gb=0.001))):
                try:
                    other = run_find(case, wd, tag, **kw)
                    for k in base:
                        same = np.array_equal(base[k], other[k]) if isinstance(base[k], np.ndarray) \
                            else base[k] == other[k]
                        if not same:
                            fails.append((f'markers route: output independent of worker count / memory budget [{k}]',
                                          dict(run=kw, one_worker=np.asarray(base[k]).tolist(),
                                               other=np.asarray(other[k]).tolist())))
                except BaseException as e:    # noqa
                    crashed.append((f'markers route: run completes ({kw})', f"{type(e).__name__}: {e}"))
            # pair swap: rename the leaves so that the sorted order is reversed
            srt = sorted(case['leaves'])
            rename = {old: f'z{len(srt) - 1 - i:03d}' for i, old in enumerate(srt)}
            inv = {v: k for k, v in rename.items()}
            try:
                sw = run_find(case, wd, 'swap', n_processors=1, rename=rename)
                Tb, Ts = tables(base), tables(sw)
                idx_b = {(a, b): i for a, b, i in pairs_of(base)}
                for a2, b2, i2 in pairs_of(sw):
                    a, b = inv[a2], inv[b2]
                    if (b, a) not in idx_b:
                        fails.append(('pair swap: the renamed run holds the same pairs in the other order', (a, b)))
                        continue
                    i1 = idx_b[(b, a)]
                    # markers identical, direction exchanged
                    if not (np.array_equal(Tb['up_by_pair'][i1], Ts['down_by_pair'][i2]) and
                            np.array_equal(Tb['down_by_pair'][i1], Ts['up_by_pair'][i2])):
                        ref = reference_pair(case, b, a)
                        # equal means: "up" is (mean2 > mean1) in both orders - such a gene has fold 0
                        # and cannot be a marker, so no exception is needed
                        fails.append(('pair swap: renaming clusters so that a pair swaps order swaps only the direction',
                                      dict(pair=(b, a), up=Tb['up_by_pair'][i1].astype(int).tolist(),
                                           down=Tb['down_by_pair'][i1].astype(int).tolist(),
                                           swapped_up=Ts['up_by_pair'][i2].astype(int).tolist(),
                                           swapped_down=Ts['down_by_pair'][i2].astype(int).tolist(),
                                           ref=[dict(fold=r['fold'], up=r['up']) for r in ref])))
            except BaseException as e:    # noqa
                crashed.append(('pair swap: run completes', f"{type(e).__name__}: {e}"))
        # p-value-mask route (its penetrance test is always the approximate one)
        pm = None
        try:
            pm = run_pmask(case, wd, 'p1', n_processors=1)
        except BaseException as e:    # noqa
            crashed.append(('p-mask route: run completes (1 worker)',
                            diagnose_pmask_crash(case, f"{type(e).__name__}: {e}")))
        if pm is not None:
            try:
                check_against_reference(case, pm, fails, 'p-mask route', False)
            except AssertionError as e:
                fails.append(('p-mask route: sparse tables well formed', str(e)))
            try:
                pm2 = run_pmask(case, wd, 'p2', n_processors=2)
                for k in pm:
                    same = np.array_equal(pm[k], pm2[k]) if isinstance(pm[k], np.ndarray) else pm[k] == pm2[k]
                    if not same:
                        fails.append((f'p-mask route: output independent of worker count [{k}]',
                                      dict(one=np.asarray(pm[k]).tolist(), two=np.asarray(pm2[k]).tolist())))
            except BaseException as e:    # noqa
                crashed.append(('p-mask route: run completes (2 workers)', f"{type(e).__name__}: {e}"))
    n_markers = 0
    if base is not None:
        n_markers = int(len(base['sparse_by_pair/up_gene_idx']) + len(base['sparse_by_pair/down_gene_idx']))
    return dict(key=describe(case), failures=fails, crashed=crashed, n_markers=n_markers,
                completed=base is not None, p_completed=pm is not None)


CLAUSES = [
    'marker only if both clusters have at least two cells',
    'marker only if the Holm-corrected Welch p-value is below p_th (independent scipy Welch + Holm over all genes)',
    'marker only if on or above every penetrance / fold floor',
    'marker only if it belongs to the gene list',
    'every gene passing the strict thresholds is recorded',
    'with exact penetrance nothing but strict-threshold genes is recorded',
    'direction is the sign of the difference of mean log2(CPM+1)',
    'gene-major tables are the transposes of the pair-major tables; no gene both up and down',
    'pair swap swaps only the direction',
    'output independent of worker count (1/2/3) and memory budget',
    'the same soundness / completeness through the p-value-mask route; 1 vs 2 workers',
    'run completes (no exception escapes)',
]


def run(tier='quick', seed=0, jobs=1):
    n = 60 if tier == 'quick' else 600
    row = new_row(FN, 'seeded-random end-to-end (real marker finder vs independent scipy/numpy recomputation)',
                  '<= 4 leaves, <= 6 genes, cluster sizes 1..8, zero-variance genes, ties, gene list, '
                  '1/2/3 workers, 2 memory budgets; one case with a threshold 1e-6 above its floor; one case with 270 genes, '
                  'one with 24 leaves (276 pairs)',
                  CLAUSES)
    seeds = ['s4', 's7', 'wide', 'many'] + [seed * 100003 + i for i in range(n)]
    for (st, res), s in zip(parallel_map(one_case, seeds, jobs=min(jobs, 4)), seeds):
        row['cases'] += 1
        if st != 'ok':
            add_error(row, res)
            continue
        row['accepted'] += 1
        if res['completed'] and res['n_markers'] > 0:
            note_case(row, res['key'])
        for clause, observed in res['crashed']:
            add_failure(row, clause, 'unexpected-exception', res['key'], observed)
        for clause, observed in res['failures']:
            add_failure(row, clause, 'ensures', res['key'], observed)
    return [finish_row(row)]


if __name__ == '__main__':
    import sys
    out = run(tier=sys.argv[1] if len(sys.argv) > 1 else 'quick', seed=0, jobs=4)
    for r in out:
        print(json.dumps({k: v for k, v in r.items() if k != 'failures'}, indent=1, default=str)[:1500])
        for f in r['failures']:
            print('FAIL', f['clause'], '|', f['kind'], '|', f['observed'][:400])
            print('     ', f['args'][:400])
