"""C17 bounded stand-in: flatten / drop_level versus mapping against a reference that never had the
level, on REAL runs.

For a world W (reference cells, taxonomy T, marker table M, query Q):
  drop_level=L on W   ==  plain mapping on W' (same cells, statistics recomputed by the package's
                          precompute stage with T minus L, the SAME marker table M), at every
                          remaining level, same seed / chunking;  the dropped level is the stored
                          tree's ancestor of the finer assignment;
  flatten on W        ==  plain mapping on W'' (one-level taxonomy of the leaves, marker table
                          {'None': union of all lists of M}) at the leaf level; coarser levels are
                          the leaf's ancestors;
  drop_level = a level T does not contain  ==  no drop_level (whole output records identical).
"""
import json
import traceback

import numpy as np

from bounded import fixture as fx
from bounded import c01
from bounded import c06

ENTRY = c01.ENTRY
# the two references of a pair are written by two separate precompute runs; their leaf means can differ
# in the last bit (summation order across worker processes), hence a float tolerance far below 1/iterations
TOL = 1e-9

CL_DROP = ("drop_level=L gives, at every other level, exactly the record obtained from a reference whose taxonomy never had L "
           "(same cells, same marker table, same seed)")
CL_DROP_ANC = "the dropped level is reported as the stored tree's ancestor of the finer assignment, directly_assigned False"
CL_FLAT = ("flatten gives at the leaf level exactly the record obtained from a one-level taxonomy of the leaves with the union "
           "of all marker lists")
CL_FLAT_ANC = "with flatten every coarser level is the leaf's ancestor, directly_assigned False"
CL_ABSENT = "dropping a level the taxonomy does not contain changes nothing"
CL_BOTH = "either both runs of a pair succeed or both fail"


def _pair(world_a, cfg_a, world_b, cfg_b):
    """run both; -> (blob_a, blob_b, err_a, err_b).  A per-level bootstrap factor lookup is written for
    the taxonomy each run is GIVEN: the run on the reduced reference names only the levels that
    reference has (it never had the others), the drop_level / flatten run names every stored level"""
    lk = cfg_b.get('bootstrap_factor_lookup')
    if isinstance(lk, dict):
        keep = set(world_b.hierarchy[:-1]) | {'None'}
        cfg_b = dict(cfg_b, bootstrap_factor_lookup={k: v for k, v in lk.items() if k in keep})
    res = []
    for w, c in ((world_a, cfg_a), (world_b, cfg_b)):
        try:
            blob, _ = fx.run_mapping_world(w, fx.mapping_config(w, **c))
            res.append((blob, None))
        except Exception as e:   # noqa
            if not fx.escaped_from_package(e):
                raise
            res.append((None, fx.package_error_text(e, 300)))
    return res[0][0], res[1][0], res[0][1], res[1][1]


def _task(task):
    out = []
    with fx.scratch() as d:
        try:
            world = fx.build_world(d, task['seed'], **task['world'])
        except BaseException as e:   # noqa
            return [dict(status='harness-error', error='world build: ' + fx.package_error_text(e) +
                         traceback.format_exc()[-800:])]
        wa = dict(seed=task['seed'], **task['world'])
        if len(world.marker_lookup.get('None', [])) == 0:
            # single node at the top: the marker stage leaves the root group empty; give the root the
            # markers of its only child so that the table is usable at the root once that level is dropped
            lk = dict(world.marker_lookup)
            only = sorted(world.tree[world.hierarchy[0]])[0]
            lk['None'] = list(lk.get(f'{world.hierarchy[0]}/{only}', [])) or \
                sorted(g for v in lk.values() for g in v)[:4]
            world.marker_lookup = lk
            world.marker_lookup_path = fx.write_marker_lookup(world, lk, 'markers_root_patched')
            wa['root_markers_patched'] = lk['None']
        h = world.hierarchy
        c2p = fx.child_to_parent(world.tree)
        rng = np.random.default_rng([task['seed'], 1717])

        def emit(clause, detail, cfg, status, observed):
            out.append(dict(clause=clause, status=status, observed=observed,
                            args=dict(build_world=wa, config=cfg, relation=detail)))

        def ancestors_ok(blob, removed_levels):
            for r in blob['results']:
                for lv in removed_levels:
                    if not isinstance(r.get(lv), dict) or not isinstance(r.get(h[-1]), dict):
                        return f"cell {r.get('cell_id')}: record has no level {lv!r} (levels present: {sorted(k for k in r if k != 'cell_id')})"
                    k = h.index(lv)
                    node = r[h[-1]]['assignment']
                    for cl in reversed(h[k + 1:]):
                        node = c2p[cl].get(node)
                    if r[lv].get('assignment') != node or r[lv].get('directly_assigned') is not False:
                        return (f"cell {r['cell_id']}: {lv}={r[lv].get('assignment')!r} directly_assigned="
                                f"{r[lv].get('directly_assigned')!r}; ancestor of leaf {r[h[-1]]['assignment']!r} is {node!r}")
            return None

        _reduced = {}

        def reduced(**kw):
            key = json.dumps(kw, sort_keys=True)
            if key not in _reduced:
                _reduced[key] = fx.reduced_world(world, **kw)
            return _reduced[key]

        for cfg in task['configs']:
            cfg = dict(cfg)
            if cfg.get('bootstrap_factor_lookup') == 'per-level':
                # one factor for every parent level of the STORED taxonomy (the natural way to write it);
                # it names levels that drop_level / flatten remove
                cfg['bootstrap_factor_lookup'] = dict({'None': 0.7}, **{lv: round(0.5 + 0.1 * k, 2)
                                                                       for k, lv in enumerate(h[:-1])})
            elif 'bootstrap_factor_lookup' in cfg:
                cfg.pop('bootstrap_factor_lookup')
            try:
                # ---- every droppable level ----
                for lv in h[:-1]:
                    red = reduced(drop_level=lv)
                    a, b, ea, eb = _pair(world, dict(cfg, drop_level=lv), red, cfg)
                    detail = dict(drop_level=lv, reduced_hierarchy=red.hierarchy)
                    if ea or eb:
                        if ea and eb:
                            emit(CL_DROP, detail, cfg, 'rejected', None)
                        else:
                            emit(CL_BOTH, detail, cfg, 'ok', f"drop_level run: {ea or 'ok'}; reduced-reference run: {eb or 'ok'}")
                        continue
                    ba = fx.by_cell_id(a)
                    msg = None
                    if [r['cell_id'] for r in a['results']] != [r['cell_id'] for r in b['results']]:
                        msg = 'cell order differs'
                    for rb in b['results']:
                        if msg:
                            break
                        ra = ba[rb['cell_id']]
                        for l2 in red.hierarchy:
                            dd = fx.record_diff(ra[l2], rb[l2], TOL)
                            if dd:
                                msg = f"cell {rb['cell_id']} level {l2}: {dd}"
                                break
                    emit(CL_DROP, detail, cfg, 'ok', msg)
                    emit(CL_DROP_ANC, detail, cfg, 'ok', ancestors_ok(a, [lv]))
                # ---- flatten ----
                flat = reduced(flatten=True)
                a, b, ea, eb = _pair(world, dict(cfg, flatten=True), flat, cfg)
                detail = dict(flatten=True)
                if ea or eb:
                    if ea and eb:
                        emit(CL_FLAT, detail, cfg, 'rejected', None)
                    else:
                        emit(CL_BOTH, detail, cfg, 'ok', f"flatten run: {ea or 'ok'}; one-level reference run: {eb or 'ok'}")
                else:
                    ba = fx.by_cell_id(a)
                    msg = None
                    for rb in b['results']:
                        dd = fx.record_diff(ba[rb['cell_id']][h[-1]], rb[h[-1]], TOL)
                        if dd:
                            msg = f"cell {rb['cell_id']} level {h[-1]}: {dd}"
                            break
                    if msg is None and [r['cell_id'] for r in a['results']] != [r['cell_id'] for r in b['results']]:
                        msg = 'cell order differs'
                    emit(CL_FLAT, detail, cfg, 'ok', msg)
                    if len(h) > 1:
                        emit(CL_FLAT_ANC, detail, cfg, 'ok', ancestors_ok(a, h[:-1]))
                # ---- flatten together with a dropped level (for a two-level taxonomy the tree is already one
                #      level deep when flatten is applied): still the union of all lists on the leaves ----
                for lv in h[:-1]:
                    a, b, ea, eb = _pair(world, dict(cfg, flatten=True, drop_level=lv), flat, cfg)
                    detail = dict(flatten=True, drop_level=lv)
                    if ea or eb:
                        if ea and eb:
                            emit(CL_FLAT, detail, cfg, 'rejected', None)
                        else:
                            emit(CL_BOTH, detail, cfg, 'ok', f"flatten + drop_level run: {ea or 'ok'}; one-level reference run: {eb or 'ok'}")
                        continue
                    ba = fx.by_cell_id(a)
                    msg = None
                    for rb in b['results']:
                        dd = fx.record_diff(ba[rb['cell_id']][h[-1]], rb[h[-1]], TOL)
                        if dd:
                            msg = f"cell {rb['cell_id']} level {h[-1]}: {dd}"
                            break
                    emit(CL_FLAT, detail, cfg, 'ok', msg)
                # ---- absent level ----
                a, b, ea, eb = _pair(world, dict(cfg, drop_level='level_that_is_not_there'), world, cfg)
                detail = dict(drop_level='level_that_is_not_there')
                if ea or eb:
                    if ea and eb:
                        emit(CL_ABSENT, detail, cfg, 'rejected', None)
                    else:
                        emit(CL_ABSENT, detail, cfg, 'ok', f"with absent drop_level: {ea or 'ok'}; without: {eb or 'ok'}")
                else:
                    msg = None
                    for ra, rb in zip(a['results'], b['results']):
                        dd = fx.record_diff(ra, rb, 0)
                        if dd:
                            msg = dd
                            break
                    if msg is None and (len(a['results']) != len(b['results']) or a['taxonomy_tree'] != b['taxonomy_tree']
                                        or a['marker_genes'] != b['marker_genes']):
                        msg = 'record count, taxonomy_tree or marker_genes of the output differ'
                    emit(CL_ABSENT, detail, cfg, 'ok', msg)
            except BaseException:   # noqa
                out.append(dict(status='harness-error', error=traceback.format_exc()[-1500:]))
    return out


def tasks_for(tier, seed):
    quick = tier == 'quick'
    rng = np.random.default_rng([int(seed), 171])
    shapes = ['d3_bal', 'd3_chain', 'd2_bal', 'd2_single_child', 'd3_mid_single', 'd1_four', 'd2_top_single',
              'd3_top_single', 'd3_reuse', 'd2_reuse', 'd3_prefix']
    encs = ['dense', 'csr', 'csc']
    factors = dict(bootstrap_factor=[0.3, 0.6, 1.0], bootstrap_iteration=[1, 8], n_runners_up=[0, 3],
                   chunk_size=[5, 18], n_processors=[1, 2], rng_seed=[11, 2024],
                   bootstrap_factor_lookup=[None, 'per-level'], max_gb=[1.0, 1.0e-6])
    out = []
    for i, s in enumerate(shapes):
        cfgs = c01.covering_sample(factors, 2 if quick else 10, rng)
        extra = dict(name_mapper='partial') if s in ('d3_bal', 'd3_prefix') else {}
        out.append(dict(seed=int(seed) + i, world=dict(taxonomy=s, encoding=encs[(i + seed) % 3], n_query=14, **extra),
                        configs=cfgs))
    if not quick:
        for r in range(8):
            spec = fx.random_taxonomy_spec(rng, 2 + r % 2, max_leaves=6, allow_top_single=(r == 7))
            out.append(dict(seed=int(seed) + 40 + r, world=dict(taxonomy=spec, encoding=encs[r % 3], n_query=14),
                            configs=c01.covering_sample(factors, 6, rng)))
    return out


def run(tier='quick', seed=0, jobs=1):
    seed = int(seed or 0)
    bound = ("11 taxonomy shapes (depth 1-3, single-child parents, single top node, labels reused across levels, a level name that is a prefix of another)" +
             ("" if tier == 'quick' else " + 8 random trees") +
             ", 14 query cells x <= 27 genes, dense/csr/csc; every non-leaf level dropped in turn, flatten, one absent level; "
             "pairwise-covering sample of bootstrap_factor {0.3,0.6,1} x iterations {1,8} x runners-up {0,3} x chunk {5,18} x "
             "workers {1,2} x rng_seed {11,2024} x {scalar factor, one factor per stored level}; records compared exactly except floats to 1e-9 (absent-level relation: bitwise)")
    row = fx.new_row(ENTRY, 'seeded-random', bound, [CL_DROP, CL_DROP_ANC, CL_FLAT, CL_FLAT_ANC, CL_ABSENT, CL_BOTH])
    try:
        rows = {c: row for c in (CL_DROP, CL_DROP_ANC, CL_FLAT, CL_FLAT_ANC, CL_ABSENT, CL_BOTH)}
        results = fx.parallel_map(_task, tasks_for(tier, seed), jobs)
        # 'rejected' pairs (both runs raise: exception-freedom is C01's clause) count as generated, not accepted
        cleaned = []
        n_rej = n_acc = n_lk_acc = 0
        for status, val in results:
            if status == 'ok':
                keep = []
                for rec in val:
                    if rec.get('status') == 'rejected':
                        row['cases'] += 1
                        n_rej += 1
                    else:
                        keep.append(rec)
                        n_acc += 1
                        if isinstance(((rec.get('args') or {}).get('config') or {}).get('bootstrap_factor_lookup'), dict):
                            n_lk_acc += 1
                val = keep
            cleaned.append((status, val))
        if n_acc and (n_rej > n_acc or n_lk_acc == 0):
            # vacuity guard: pairs in which both runs raise are not evaluated; they must stay the exception
            fx.add_error(row, f"vacuity guard: {n_rej} pairs rejected (both runs raised) vs {n_acc} evaluated; "
                              f"{n_lk_acc} evaluated pairs used a per-level bootstrap factor lookup")
        c06.collect(rows, cleaned, row)
    except BaseException:   # noqa
        fx.add_error(row, traceback.format_exc()[-2000:])
    return [fx.finish_row(row)]
