"""Bounded stand-in for C09 (never counted as proved): reference statistics on real files.

Deductive part of C09: contracts/c_precompute_from_anndata.py (work split = partition of the
(file, row) space, index bound, row -> cluster row, iterator / obs names of the right file),
c_truncate_precompute.py (row bookkeeping of the truncation), c_stats_utils.py /
c_precompute_utils.py (bounded contracts).  The HDF5 / anndata / numpy-reduction bodies are outside
the prover; this module drives the REAL stage functions on tiny generated reference datasets and
compares every dataset of the written file with a direct computation:

  precompute   `precompute_summary_stats_from_h5ad_list_and_tree` (cells named by the taxonomy,
               spread over 1-3 h5ad files, dense / CSR / CSC, raw or pre-normalised) and
               `precompute_summary_stats_from_h5ad` (one file, taxonomy from obs columns), for every
               n_processors in {1, 2, 3, 5} x rows_at_a_time in {1, 2, 3, 1000} (sampled) x
               copy_data_over: n_cells / gt0 / gt1 / ge1 exactly (oracle in exact integer
               arithmetic: count * 10^6 {>, >=} total), sum / sumsq to 1e-6 relative,
               cluster_to_row = sorted leaves, col_names = gene names, taxonomy_tree = input tree;
               unlabelled cells, clusters of one cell, clusters scattered over files and chunks,
               a file without any labelled cell, a leaf without any cell.  All configurations of
               one dataset must agree with the same oracle (partition independence).
  readers      `score_utils.read_precomputed_stats` accepts the file and returns, per leaf,
               mean = sum / n_cells of that leaf (C18.a: row meaning shared by writer and reader)
  truncate     `truncate_precomputed_stats_file` for every proper order-preserving sub-hierarchy:
               the result equals the statistics of the coarser hierarchy computed directly; the three
               rejected requests (same hierarchy, unknown level, shuffled levels) raise RuntimeError
  merge        `merge_precompute_files`: per cluster, n_cells is the maximum over the datasets and
               all rows come from ONE dataset attaining it; taxonomy / cluster_to_row / col_names kept

Generated counts avoid the S-5 window (a cell with 0.9999986 < CPM < 1), which is reported separately
by the bounded contract `summary_stats_for_chunk#ge1_strict`.
Files live under one tempfile.mkdtemp directory in /tmp, removed afterwards.
"""
import json
import os
import random
import time
import traceback
import warnings

import numpy as np

from bounded import fixture as fx

FORM = 'seeded-random over boundary-biased tiny reference datasets (real files, real stage functions)'
STAT_KEYS = ('n_cells', 'sum', 'sumsq', 'gt0', 'gt1', 'ge1')
TOTALS = [500000, 1000000, 2000000, 1250000, 4000000, 37, 999]


# --------------------------------------------------------------------------------------------
# data generation
# --------------------------------------------------------------------------------------------
def _in_s5_window(count, total):
    return 0.9999986 * total < count * 10**6 < total


def make_dataset(rng, n_cells=None):
    """raw count matrix with row totals that put CPM on / around the thresholds; a 3-level
    taxonomy; labels (None = cell not named by the taxonomy)"""
    n_cells = n_cells or rng.randint(4, 12)
    n_genes = rng.randint(2, 4)
    X = np.zeros((n_cells, n_genes), dtype=np.int64)
    for i in range(n_cells):
        total = rng.choice(TOTALS)
        while True:
            small = [rng.choice([0, 0, 1, 2, 3, 4]) for _ in range(n_genes - 1)]
            rest = total - sum(small)
            if rest > 0 and not any(_in_s5_window(c, total) for c in small + [rest]):
                break
        X[i, :-1] = small
        X[i, -1] = rest
    n_clusters = rng.randint(2, 5)
    clusters = [f"cl{j}" for j in range(n_clusters)]
    n_sub = rng.randint(1, min(3, n_clusters))
    subs = [f"sub{j}" for j in range(n_sub)]
    sub_of = {c: subs[j % n_sub] if j < n_sub else rng.choice(subs) for j, c in enumerate(clusters)}
    n_cls = rng.randint(1, n_sub)
    classes = [f"class{j}" for j in range(n_cls)]
    cls_of = {s: classes[j % n_cls] if j < n_cls else rng.choice(classes) for j, s in enumerate(subs)}
    labels = []
    for i in range(n_cells):
        labels.append(None if rng.random() < 0.2 else rng.choice(clusters))
    # a cluster of exactly one cell, whenever possible
    lab = [i for i, l in enumerate(labels) if l is not None]
    if len(lab) >= 2:
        one = clusters[0]
        for i in lab:
            if labels[i] == one:
                labels[i] = clusters[1]
        labels[lab[0]] = one
    names = [f"cell_{i}" for i in range(n_cells)]
    genes = [f"gene_{j}" for j in range(n_genes)]
    return dict(X=X, names=names, genes=genes, labels=labels, clusters=clusters, sub_of=sub_of,
                cls_of=cls_of, subs=subs, classes=classes)


def tree_data(ds, with_cells=True, phantom=False):
    data = {'hierarchy': ['class', 'subclass', 'cluster']}
    data['class'] = {c: sorted(s for s in ds['subs'] if ds['cls_of'][s] == c) for c in ds['classes']}
    data['subclass'] = {s: sorted(c for c in ds['clusters'] if ds['sub_of'][c] == s) for s in ds['subs']}
    leaf = {}
    for c in ds['clusters']:
        leaf[c] = [n for n, l in zip(ds['names'], ds['labels']) if l == c] if with_cells else []
    if phantom:
        # a cell named by the taxonomy that is in no file contributes nothing
        leaf[ds['clusters'][-1]] = leaf[ds['clusters'][-1]] + ['cell_not_in_any_file']
    data['cluster'] = leaf
    return data


def oracle(ds, groups):
    """direct computation; `groups`: ordered list of (row name, [cell indices])"""
    X = ds['X']
    L = fx.to_log2cpm(X)
    tot = X.sum(axis=1)
    n_g = X.shape[1]
    out = {k: [] for k in STAT_KEYS}
    for _, idx in groups:
        idx = list(idx)
        out['n_cells'].append(len(idx))
        out['sum'].append(L[idx].sum(axis=0) if idx else np.zeros(n_g))
        out['sumsq'].append((L[idx] ** 2).sum(axis=0) if idx else np.zeros(n_g))
        out['gt0'].append([sum(1 for i in idx if X[i, g] > 0) for g in range(n_g)])
        out['gt1'].append([sum(1 for i in idx if int(X[i, g]) * 10**6 > int(tot[i])) for g in range(n_g)])
        out['ge1'].append([sum(1 for i in idx if int(X[i, g]) * 10**6 >= int(tot[i])) for g in range(n_g)])
    return {k: np.array(v) for k, v in out.items()}


def read_stats(path):
    import h5py
    with h5py.File(path, 'r') as f:
        out = {k: f[k][()] for k in STAT_KEYS}
        out['cluster_to_row'] = json.loads(f['cluster_to_row'][()].decode('utf-8'))
        out['col_names'] = json.loads(f['col_names'][()].decode('utf-8'))
        out['taxonomy_tree'] = json.loads(f['taxonomy_tree'][()].decode('utf-8')) if 'taxonomy_tree' in f else None
        out['keys'] = sorted(f.keys())
    return out


def compare_stats(row, got, want, args, what):
    ok = True
    for k in STAT_KEYS:
        g, w = np.asarray(got[k]), np.asarray(want[k])
        if g.shape != w.shape:
            fx.add_failure(row, f"{what}: dataset {k} has the shape of the direct computation", 'ensures',
                           args, dict(got=g.shape, want=w.shape))
            ok = False
            continue
        if k in ('sum', 'sumsq'):
            good = np.allclose(g, w, rtol=1e-6, atol=1e-9)
        else:
            good = np.array_equal(g, w)
        if not good:
            fx.add_failure(row, f"{what}: dataset {k} equals the direct computation "
                                f"({'1e-6 relative' if k in ('sum', 'sumsq') else 'exactly'})", 'ensures',
                           args, dict(got=g.tolist(), want=w.tolist()))
            ok = False
    return ok


def split_files(rng, ds, workdir, tag, normalization, force_k=None):
    """write the cells into 1-3 h5ad files (random assignment, order kept inside a file)"""
    n = len(ds['names'])
    k = force_k or rng.randint(1, 3)
    where = [rng.randrange(k) for _ in range(n)]
    if k > 1 and rng.random() < 0.35:
        # one file holds only cells that the taxonomy does not name
        unl = [i for i, l in enumerate(ds['labels']) if l is None]
        if unl:
            for i in range(n):
                if where[i] == k - 1 and ds['labels'][i] is not None:
                    where[i] = 0
            for i in unl[:2]:
                where[i] = k - 1
    paths = []
    M = ds['X'] if normalization == 'raw' else fx.to_log2cpm(ds['X'])
    layout = []
    for f in range(k):
        idx = [i for i in range(n) if where[i] == f]
        if not idx:
            continue
        enc = rng.choice(['dense', 'csr', 'csc'])
        p = os.path.join(workdir, f"{tag}_part{f}.h5ad")
        fx._write_h5ad(p, M[idx].astype(np.float64 if normalization != 'raw' else np.int64),
                       [ds['names'][i] for i in idx], ds['genes'], encoding=enc)
        paths.append(p)
        layout.append((enc, idx))
    return paths, layout


# --------------------------------------------------------------------------------------------
# rows
# --------------------------------------------------------------------------------------------
def _tree(data):
    from cell_type_mapper.taxonomy.taxonomy_tree import TaxonomyTree
    with warnings.catch_warnings():
        warnings.simplefilter('ignore')
        return TaxonomyTree(data=data)


def row_precompute(rng, workdir, n_datasets, n_configs, deadline):
    from cell_type_mapper.diff_exp.precompute_from_anndata import (
        precompute_summary_stats_from_h5ad_list_and_tree, precompute_summary_stats_from_h5ad)
    from cell_type_mapper.diff_exp.score_utils import read_precomputed_stats
    row = fx.new_row('cell_type_mapper.diff_exp.precompute_from_anndata.precompute_summary_stats_from_h5ad'
                     '[_list_and_tree]', FORM,
                     '<= 12 cells x 4 genes, <= 5 clusters, <= 3 files; n_processors in {1,2,3,5}, '
                     'rows_at_a_time in {1,2,3,1000}, copy_data_over, raw / log2CPM, dense / CSR / CSC',
                     ['every dataset equals the direct computation (counts exactly, sums 1e-6 relative)',
                      'cluster_to_row lists the sorted leaves, col_names the genes, taxonomy_tree the input tree',
                      'all file splits / chunk sizes / worker counts of one dataset give the same statistics',
                      'read_precomputed_stats returns mean = sum / n_cells per leaf (C18.a)'])
    for d in range(n_datasets):
        if time.time() > deadline:
            break
        ds = make_dataset(rng)
        phantom = rng.random() < 0.3
        tdata = tree_data(ds, phantom=phantom)
        leaves = sorted(ds['clusters'])
        groups = [(c, [i for i, l in enumerate(ds['labels']) if l == c]) for c in leaves]
        want = oracle(ds, groups)
        first = None
        for c in range(n_configs):
            if time.time() > deadline:
                break
            normalization = rng.choice(['raw', 'raw', 'log2CPM'])
            n_proc = rng.choice([1, 2, 3, 5])
            rows_at = rng.choice([1, 2, 3, 1000])
            copy_over = rng.random() < 0.25
            single = rng.random() < 0.2 and all(l is not None for l in ds['labels'])
            tag = f"d{d}c{c}"
            args = dict(seed_dataset=d, config=c, n_processors=n_proc, rows_at_a_time=rows_at,
                        copy_data_over=copy_over, normalization=normalization,
                        labels=ds['labels'], X=ds['X'].tolist())
            row['cases'] += 1
            out = os.path.join(workdir, f"{tag}_stats.h5")
            tmp = os.path.join(workdir, f"{tag}_tmp")
            os.makedirs(tmp)
            try:
                paths, layout = split_files(rng, ds, workdir, tag, normalization,
                                            force_k=1 if single else None)
                args['files'] = [(e, idx) for e, idx in layout]
                tree = _tree(tdata)
                with fx.quiet():
                    precompute_summary_stats_from_h5ad_list_and_tree(
                        data_path_list=list(paths), taxonomy_tree=tree, output_path=out,
                        rows_at_a_time=rows_at, normalization=normalization, tmp_dir=tmp,
                        n_processors=n_proc, copy_data_over=copy_over)
            except BaseException as e:   # noqa
                if isinstance(e, (KeyboardInterrupt, SystemExit)):
                    raise
                fx.add_failure(row, 'the statistics stage completes on a valid reference dataset',
                               'unexpected-exception', args,
                               f"{type(e).__name__}: {e}\n{traceback.format_exc()[-800:]}")
                continue
            row['accepted'] += 1
            fx.note_case(row, (ds['X'].tolist(), ds['labels'], layout, n_proc, rows_at, copy_over, normalization))
            got = read_stats(out)
            compare_stats(row, got, want, args, 'precompute')
            if got['cluster_to_row'] != {c: i for i, c in enumerate(leaves)}:
                fx.add_failure(row, 'cluster_to_row maps the sorted leaf names to rows 0..n-1', 'ensures', args,
                               got['cluster_to_row'])
            if got['col_names'] != ds['genes']:
                fx.add_failure(row, 'col_names are the gene names of the input', 'ensures', args, got['col_names'])
            if got['taxonomy_tree'] is None or \
                    json.loads(_tree(got['taxonomy_tree']).to_str()) != json.loads(tree.to_str()):
                fx.add_failure(row, 'taxonomy_tree dataset holds the input taxonomy', 'ensures', args,
                               str(got['taxonomy_tree'])[:300])
            if os.listdir(tmp):
                fx.add_failure(row, 'scratch directory is empty afterwards', 'ensures', args, os.listdir(tmp))
            # partition independence: same statistics as the first configuration of this dataset
            if first is None:
                first = got
            else:
                for k in STAT_KEYS:
                    same = np.allclose(first[k], got[k], rtol=1e-6, atol=1e-9) if k in ('sum', 'sumsq') \
                        else np.array_equal(first[k], got[k])
                    if not same:
                        fx.add_failure(row, f'{k} does not depend on files / chunks / workers', 'ensures', args,
                                       dict(first=np.asarray(first[k]).tolist(), now=np.asarray(got[k]).tolist()))
            # reader (C18.a)
            try:
                with fx.quiet():
                    rd = read_precomputed_stats(out, tree, for_marker_selection=True)
                for c_i, (cname, idx) in enumerate(groups):
                    if not idx:
                        continue
                    m = rd['cluster_stats'][f'cluster/{cname}']['mean']
                    if not np.allclose(m, want['sum'][c_i] / len(idx), rtol=1e-6, atol=1e-9):
                        fx.add_failure(row, 'reader: mean of a leaf = sum / n_cells of that leaf', 'ensures',
                                       args, dict(leaf=cname, got=np.asarray(m).tolist()))
                if list(rd['gene_names']) != ds['genes']:
                    fx.add_failure(row, 'reader: gene_names are the col_names', 'ensures', args, rd['gene_names'])
            except BaseException as e:   # noqa
                if isinstance(e, (KeyboardInterrupt, SystemExit)):
                    raise
                fx.add_failure(row, 'read_precomputed_stats accepts the file written by the stage',
                               'unexpected-exception', args, f"{type(e).__name__}: {e}")
        # single file, taxonomy from obs columns (every cell labelled)
        if time.time() < deadline:
            full = [l if l is not None else ds['clusters'][0] for l in ds['labels']]
            ds2 = dict(ds, labels=full)
            groups2 = [(c, [i for i, l in enumerate(full) if l == c]) for c in sorted(set(full))]
            want2 = oracle(ds2, groups2)
            p = os.path.join(workdir, f"d{d}_single.h5ad")
            obs_cols = {'class': [ds['cls_of'][ds['sub_of'][l]] for l in full],
                        'subclass': [ds['sub_of'][l] for l in full], 'cluster': full}
            fx._write_h5ad(p, ds['X'], ds['names'], ds['genes'], encoding=rng.choice(['dense', 'csr', 'csc']),
                           obs_cols=obs_cols)
            n_proc, rows_at = rng.choice([1, 2, 3]), rng.choice([1, 2, 1000])
            args = dict(entry='precompute_summary_stats_from_h5ad', n_processors=n_proc, rows_at_a_time=rows_at,
                        labels=full, X=ds['X'].tolist())
            row['cases'] += 1
            out = os.path.join(workdir, f"d{d}_single_stats.h5")
            tmp = os.path.join(workdir, f"d{d}_single_tmp")
            os.makedirs(tmp)
            try:
                with fx.quiet():
                    precompute_summary_stats_from_h5ad(
                        data_path=p, column_hierarchy=['class', 'subclass', 'cluster'], taxonomy_tree=None,
                        output_path=out, rows_at_a_time=rows_at, normalization='raw', tmp_dir=tmp,
                        n_processors=n_proc)
                row['accepted'] += 1
                got = read_stats(out)
                compare_stats(row, got, want2, args, 'precompute (obs columns)')
                if got['cluster_to_row'] != {c: i for i, (c, _) in enumerate(groups2)}:
                    fx.add_failure(row, 'cluster_to_row maps the sorted leaf names to rows 0..n-1', 'ensures',
                                   args, got['cluster_to_row'])
            except BaseException as e:   # noqa
                if isinstance(e, (KeyboardInterrupt, SystemExit)):
                    raise
                fx.add_failure(row, 'the statistics stage completes on a valid reference dataset',
                               'unexpected-exception', args,
                               f"{type(e).__name__}: {e}\n{traceback.format_exc()[-800:]}")
    return fx.finish_row(row)


def _write_stats_file(path, ds, tdata, groups, stats, col_names=None):
    """a statistics file as the stage writes it (used as INPUT of truncate / merge)"""
    import h5py
    tree = _tree(tdata)
    with h5py.File(path, 'w') as f:
        f.create_dataset('taxonomy_tree', data=tree.to_str().encode('utf-8'))
        f.create_dataset('cluster_to_row', data=json.dumps({c: i for i, (c, _) in enumerate(groups)}).encode('utf-8'))
        f.create_dataset('col_names', data=json.dumps(col_names or ds['genes']).encode('utf-8'))
        f.create_dataset('metadata', data=json.dumps({'made_by': 'bounded.c09'}).encode('utf-8'))
        for k in STAT_KEYS:
            a = np.asarray(stats[k])
            if a.ndim == 2 and a.shape[0] > 0 and a.shape[1] > 0:
                # the stage's own layout: row-chunked by a tenth of the clusters
                f.create_dataset(k, data=a, chunks=(max(1, a.shape[0] // 10), a.shape[1]))
            else:
                f.create_dataset(k, data=a)
    return tree


def row_truncate(rng, workdir, n_datasets, deadline):
    from cell_type_mapper.diff_exp.truncate_precompute import truncate_precomputed_stats_file
    row = fx.new_row('cell_type_mapper.diff_exp.truncate_precompute.truncate_precomputed_stats_file', FORM,
                     '3-level taxonomies with <= 5 leaves; every proper order-preserving sub-hierarchy',
                     ['truncated file = statistics of the coarser hierarchy (rows of merged leaves summed)',
                      'same hierarchy / unknown level / shuffled levels are rejected with RuntimeError',
                      'the input file is not modified'])
    H = ['class', 'subclass', 'cluster']
    for d in range(n_datasets):
        if time.time() > deadline:
            break
        ds = make_dataset(rng)
        tdata = tree_data(ds)
        leaves = sorted(ds['clusters'])
        groups = [(c, [i for i, l in enumerate(ds['labels']) if l == c]) for c in leaves]
        stats = oracle(ds, groups)
        src = os.path.join(workdir, f"t{d}_src.h5")
        _write_stats_file(src, ds, tdata, groups, stats)
        before = open(src, 'rb').read()
        for new_h in (['class', 'subclass'], ['class'], ['subclass'], ['class', 'cluster'],
                      ['subclass', 'cluster'], ['cluster']):
            row['cases'] += 1
            args = dict(dataset=d, new_hierarchy=new_h, labels=ds['labels'], sub_of=ds['sub_of'],
                        cls_of=ds['cls_of'])
            out = os.path.join(workdir, f"t{d}_{'_'.join(new_h)}.h5")
            try:
                with fx.quiet():
                    truncate_precomputed_stats_file(input_path=src, output_path=out, new_hierarchy=list(new_h))
            except BaseException as e:   # noqa
                if isinstance(e, (KeyboardInterrupt, SystemExit)):
                    raise
                fx.add_failure(row, 'truncation to an order-preserving sub-hierarchy completes',
                               'unexpected-exception', args, f"{type(e).__name__}: {e}\n{traceback.format_exc()[-600:]}")
                continue
            row['accepted'] += 1
            fx.note_case(row, (ds['labels'], sorted(ds['sub_of'].items()), sorted(ds['cls_of'].items()), new_h))
            leaf_level = new_h[-1]
            anc = {'cluster': lambda c: c, 'subclass': lambda c: ds['sub_of'][c],
                   'class': lambda c: ds['cls_of'][ds['sub_of'][c]]}[leaf_level]
            got = read_stats(out)
            new_leaves = got['cluster_to_row']
            exp_names = sorted(set(anc(c) for c in leaves))
            if sorted(new_leaves) != exp_names or sorted(new_leaves.values()) != list(range(len(exp_names))):
                fx.add_failure(row, 'cluster_to_row of the truncated file: the nodes of the new leaf level, '
                                    'rows 0..n-1', 'ensures', args, new_leaves)
                continue
            order = sorted(new_leaves, key=lambda k: new_leaves[k])
            groups2 = [(nl, [i for i, l in enumerate(ds['labels']) if l is not None and anc(l) == nl])
                       for nl in order]
            compare_stats(row, got, oracle(ds, groups2), args, 'truncate')
            if got['col_names'] != ds['genes']:
                fx.add_failure(row, 'col_names unchanged', 'ensures', args, got['col_names'])
            if got['taxonomy_tree'] is None or got['taxonomy_tree'].get('hierarchy') != new_h:
                fx.add_failure(row, 'taxonomy_tree of the truncated file has the requested hierarchy',
                               'ensures', args, str(got['taxonomy_tree'])[:200])
        for bad, why in ((list(H), 'same hierarchy'), (['class', 'nonsense'], 'unknown level'),
                         (['subclass', 'class'], 'shuffled levels')):
            row['cases'] += 1
            out = os.path.join(workdir, f"t{d}_bad.h5")
            try:
                with fx.quiet():
                    truncate_precomputed_stats_file(input_path=src, output_path=out, new_hierarchy=bad)
                fx.add_failure(row, f'{why} is rejected with RuntimeError', 'must-raise', dict(new_hierarchy=bad),
                               'returned normally')
            except RuntimeError:
                row['accepted'] += 1
            except BaseException as e:   # noqa
                if isinstance(e, (KeyboardInterrupt, SystemExit)):
                    raise
                fx.add_failure(row, f'{why} is rejected with RuntimeError', 'raises', dict(new_hierarchy=bad),
                               f"{type(e).__name__}: {e}")
        if open(src, 'rb').read() != before:
            fx.add_failure(row, 'the input file is not modified', 'ensures', dict(dataset=d), 'bytes differ')
    return fx.finish_row(row)


def row_merge(rng, workdir, n_cases, deadline):
    from cell_type_mapper.diff_exp.precompute_utils import merge_precompute_files
    row = fx.new_row('cell_type_mapper.diff_exp.precompute_utils.merge_precompute_files', FORM,
                     '1-4 datasets of one taxonomy with <= 5 leaves, ties in n_cells included',
                     ['per cluster: n_cells = max over the datasets, and all rows are those of ONE dataset '
                      'attaining the maximum',
                      'taxonomy_tree, cluster_to_row, col_names are those of the inputs',
                      'the input files are not modified'])
    for t in range(n_cases):
        if time.time() > deadline:
            break
        ds = make_dataset(rng, n_cells=rng.randint(4, 8))
        tdata = tree_data(ds, with_cells=False)
        leaves = sorted(ds['clusters'])
        k = rng.randint(1, 4)
        paths, all_stats = [], []
        for j in range(k):
            n_g = len(ds['genes'])
            st = dict(n_cells=np.array([rng.choice([0, 1, 2, 2, 3, 7]) for _ in leaves]))
            for key in ('sum', 'sumsq'):
                st[key] = np.array([[rng.random() * 10 for _ in range(n_g)] for _ in leaves])
            for key in ('gt0', 'gt1', 'ge1'):
                st[key] = np.array([[rng.randint(0, 7) for _ in range(n_g)] for _ in leaves])
            p = os.path.join(workdir, f"m{t}_{rng.choice('abcxyz')}{j}.h5")
            _write_stats_file(p, ds, tdata, [(c, []) for c in leaves], st)
            paths.append(p)
            all_stats.append(st)
        order = list(paths)
        rng.shuffle(order)
        before = {p: open(p, 'rb').read() for p in paths}
        out = os.path.join(workdir, f"m{t}_out.h5")
        args = dict(case=t, n_cells=[s['n_cells'].tolist() for s in all_stats],
                    order=[os.path.basename(p) for p in order])
        row['cases'] += 1
        try:
            with fx.quiet():
                merge_precompute_files(precompute_path_list=list(order), output_path=out)
        except BaseException as e:   # noqa
            if isinstance(e, (KeyboardInterrupt, SystemExit)):
                raise
            fx.add_failure(row, 'merging statistics files of one taxonomy completes', 'unexpected-exception', args,
                           f"{type(e).__name__}: {e}\n{traceback.format_exc()[-600:]}")
            continue
        row['accepted'] += 1
        fx.note_case(row, args)
        got = read_stats(out)
        for r, c in enumerate(leaves):
            best = max(int(s['n_cells'][r]) for s in all_stats)
            if int(got['n_cells'][r]) != best:
                fx.add_failure(row, 'per cluster: n_cells = max over the datasets', 'ensures',
                               dict(args, cluster=c), int(got['n_cells'][r]))
                continue
            donors = [j for j, s in enumerate(all_stats) if int(s['n_cells'][r]) == best and
                      all(np.array_equal(np.asarray(got[key])[r], s[key][r]) for key in STAT_KEYS[1:])]
            if not donors:
                fx.add_failure(row, 'per cluster: all rows are those of ONE dataset attaining the maximum',
                               'ensures', dict(args, cluster=c),
                               {key: np.asarray(got[key])[r].tolist() for key in STAT_KEYS[1:]})
        if got['cluster_to_row'] != {c: i for i, c in enumerate(leaves)} or got['col_names'] != ds['genes'] \
                or got['taxonomy_tree'] is None:
            fx.add_failure(row, 'taxonomy_tree, cluster_to_row, col_names are those of the inputs', 'ensures', args,
                           dict(cluster_to_row=got['cluster_to_row'], col_names=got['col_names']))
        for p in paths:
            if open(p, 'rb').read() != before[p]:
                fx.add_failure(row, 'the input files are not modified', 'ensures', args, os.path.basename(p))
    return fx.finish_row(row)


def row_no_labelled_cell(rng, workdir, deadline):
    """labelling in which no cell of the files is named by the taxonomy: every statistic is zero
    (cells not named by the taxonomy contribute nothing).  FINDING P-1: the stage raises
    AttributeError('NoneType' object has no attribute 'keys') instead (final_output stays None)."""
    from cell_type_mapper.diff_exp.precompute_from_anndata import (
        precompute_summary_stats_from_h5ad_list_and_tree)
    row = fx.new_row('cell_type_mapper.diff_exp.precompute_from_anndata.'
                     'precompute_summary_stats_from_h5ad_list_and_tree#no_labelled_cell', FORM,
                     'datasets whose files hold no cell named by the taxonomy; n_processors in {1, 2}',
                     ['a labelling that names no cell of the files gives all-zero statistics'])
    for t, n_proc in enumerate((1, 2)):
        if time.time() > deadline:
            break
        ds = make_dataset(rng, n_cells=4)
        ds['labels'] = [None] * len(ds['names'])
        tdata = tree_data(ds, phantom=True)
        leaves = sorted(ds['clusters'])
        want = oracle(ds, [(c, []) for c in leaves])
        args = dict(n_processors=n_proc, X=ds['X'].tolist(), tree_leaves=tdata['cluster'])
        row['cases'] += 1
        out = os.path.join(workdir, f"z{t}_stats.h5")
        tmp = os.path.join(workdir, f"z{t}_tmp")
        os.makedirs(tmp)
        try:
            paths, layout = split_files(rng, ds, workdir, f"z{t}", 'raw')
            with fx.quiet():
                precompute_summary_stats_from_h5ad_list_and_tree(
                    data_path_list=list(paths), taxonomy_tree=_tree(tdata), output_path=out,
                    rows_at_a_time=2, normalization='raw', tmp_dir=tmp, n_processors=n_proc)
        except BaseException as e:   # noqa
            if isinstance(e, (KeyboardInterrupt, SystemExit)):
                raise
            fx.add_failure(row, 'a labelling that names no cell of the files gives all-zero statistics',
                           'unexpected-exception', args, f"{type(e).__name__}: {e}")
            continue
        row['accepted'] += 1
        fx.note_case(row, args)
        compare_stats(row, read_stats(out), want, args, 'no labelled cell')
    return fx.finish_row(row)


# --------------------------------------------------------------------------------------------
def row_large_and_fractional(rng, workdir):
    """two deterministic-size datasets outside the tiny scope: (a) 600 cells, one cluster of 500 spread
    evenly over the file, so that per-cluster counts exceed 255 although every worker's share stays
    below 256; (b) fractional 'raw' values with per-cell totals in (0, 1) (expected / ambient-corrected
    counts): CPM must still be value / total * 1e6."""
    from cell_type_mapper.diff_exp.precompute_from_anndata import precompute_summary_stats_from_h5ad
    row = fx.new_row('cell_type_mapper.diff_exp.precompute_from_anndata.precompute_summary_stats_from_h5ad#large',
                     FORM, '600 cells x 3 genes (a 500-cell cluster interleaved with 4 small ones), n_processors {1,3}, '
                           'rows_at_a_time 100; 60 cells with fractional raw values, five with a total of 0.5',
                     ['large: every dataset equals the direct computation', 'fractional raw values: n_cells, gt0 exactly; sum, '
                      'sumsq to 1e-6 relative', 'the statistics do not depend on the number of workers'])
    cases = []
    # (a)
    n = 600
    labels = ['big' if i % 6 else f'small{(i // 6) % 4}' for i in range(n)]
    X = np.zeros((n, 3), dtype=np.int64)
    for i in range(n):
        X[i] = [rng.choice([0, 1, 2, 5]), rng.choice([0, 3, 40]), rng.choice([10, 100, 1000])]
    cases.append(('large', X, labels, STAT_KEYS))
    # (b)
    n = 60
    labels = [f'f{i % 3}' for i in range(n)]
    Xf = np.array([[rng.choice([0.0, 0.25, 1.5, 3.0]), rng.choice([0.5, 2.0, 7.25]), rng.choice([0.0, 0.75, 12.0])]
                   for _ in range(n)])
    for i in range(0, n, 12):
        Xf[i] = [0.25, 0.25, 0.0]          # total 0.5
    cases.append(('fractional raw values', Xf, labels, ('n_cells', 'sum', 'sumsq', 'gt0')))
    for name, X, labels, keys in cases:
        clusters = sorted(set(labels))
        L = fx.to_log2cpm(X)
        want = dict(n_cells=np.array([labels.count(c) for c in clusters]),
                    sum=np.array([L[[i for i, l in enumerate(labels) if l == c]].sum(axis=0) for c in clusters]),
                    sumsq=np.array([(L[[i for i, l in enumerate(labels) if l == c]] ** 2).sum(axis=0) for c in clusters]),
                    gt0=np.array([(X[[i for i, l in enumerate(labels) if l == c]] > 0).sum(axis=0) for c in clusters]))
        if 'gt1' in keys:
            tot = X.sum(axis=1)
            for k, op in (('gt1', lambda a, b: a > b), ('ge1', lambda a, b: a >= b)):
                want[k] = np.array([[sum(1 for i, l in enumerate(labels) if l == c and op(int(X[i, g]) * 10**6, int(tot[i])))
                                     for g in range(X.shape[1])] for c in clusters])
        p = os.path.join(workdir, f"{name.split()[0]}.h5ad")
        fx._write_h5ad(p, X, [f'cell_{i}' for i in range(len(labels))], ['g0', 'g1', 'g2'],
                       encoding='csr' if name == 'large' else 'dense',
                       obs_cols={'class': ['K'] * len(labels), 'cluster': labels})
        first = None
        for n_proc in (1, 3):
            args = dict(dataset=name, n_processors=n_proc, rows_at_a_time=100, n_cells=len(labels),
                        cluster_sizes={c: labels.count(c) for c in clusters})
            row['cases'] += 1
            out = os.path.join(workdir, f"{name.split()[0]}_{n_proc}.h5")
            tmp = os.path.join(workdir, f"{name.split()[0]}_{n_proc}_tmp")
            os.makedirs(tmp)
            try:
                with fx.quiet():
                    precompute_summary_stats_from_h5ad(
                        data_path=p, column_hierarchy=['class', 'cluster'], taxonomy_tree=None, output_path=out,
                        rows_at_a_time=100, normalization='raw', tmp_dir=tmp, n_processors=n_proc)
            except BaseException as e:   # noqa
                if isinstance(e, (KeyboardInterrupt, SystemExit)):
                    raise
                fx.add_failure(row, 'the statistics stage completes on a valid reference dataset',
                               'unexpected-exception', args, f"{type(e).__name__}: {e}\n{traceback.format_exc()[-600:]}")
                continue
            row['accepted'] += 1
            fx.note_case(row, (name, n_proc))
            got = read_stats(out)
            order = [got['cluster_to_row'][c] for c in clusters]
            for k in keys:
                g, w = np.asarray(got[k])[order], np.asarray(want[k])
                good = np.allclose(g, w, rtol=1e-6, atol=1e-9) if k in ('sum', 'sumsq') else np.array_equal(g, w)
                if not good:
                    fx.add_failure(row, f"{name}: dataset {k} equals the direct computation", 'ensures', args,
                                   dict(got=g.tolist()[:3], want=w.tolist()[:3]))
            if first is None:
                first = got
            else:
                for k in keys:
                    if not np.allclose(np.asarray(first[k], dtype=float), np.asarray(got[k], dtype=float), rtol=1e-6, atol=1e-9):
                        fx.add_failure(row, f'{name}: {k} does not depend on the number of workers', 'ensures', args,
                                       dict(one_worker=np.asarray(first[k]).tolist()[:3], now=np.asarray(got[k]).tolist()[:3]))
    return fx.finish_row(row)


def row_permuted_genes(rng, workdir):
    """two reference files listing the same genes in partly different order (two genes swapped, the
    matrix columns following each file's own var): either refused, or accumulated by gene NAME"""
    from cell_type_mapper.diff_exp.precompute_from_anndata import precompute_summary_stats_from_h5ad_list_and_tree
    row = fx.new_row('cell_type_mapper.diff_exp.precompute_from_anndata.precompute_summary_stats_from_h5ad_list_and_tree'
                     '#gene_order', FORM, '8-12 cells in two files, 3-4 genes, the second file with two genes swapped',
                     ['files whose gene lists differ in order are refused or accumulated by gene name'])
    for rep in range(4):
        ds = make_dataset(rng, n_cells=rng.randint(8, 12))
        n_g = len(ds['genes'])
        if n_g < 3:
            continue
        ds['labels'] = [l if l is not None else ds['clusters'][0] for l in ds['labels']]
        half = len(ds['names']) // 2
        a, b = rng.sample(range(n_g), 2)
        perm = list(range(n_g))
        perm[a], perm[b] = perm[b], perm[a]
        p1 = os.path.join(workdir, f'go{rep}_a.h5ad')
        p2 = os.path.join(workdir, f'go{rep}_b.h5ad')
        fx._write_h5ad(p1, ds['X'][:half], ds['names'][:half], ds['genes'], encoding='csr')
        fx._write_h5ad(p2, ds['X'][half:][:, perm], ds['names'][half:], [ds['genes'][i] for i in perm], encoding='csr')
        leaves = sorted(ds['clusters'])
        groups = [(c, [i for i, l in enumerate(ds['labels']) if l == c]) for c in leaves]
        want = oracle(ds, groups)
        args = dict(case=rep, swapped_genes=[ds['genes'][a], ds['genes'][b]], n_cells=len(ds['names']))
        row['cases'] += 1
        out = os.path.join(workdir, f'go{rep}_stats.h5')
        tmp = os.path.join(workdir, f'go{rep}_tmp')
        os.makedirs(tmp)
        try:
            with fx.quiet():
                precompute_summary_stats_from_h5ad_list_and_tree(
                    data_path_list=[p1, p2], taxonomy_tree=_tree(tree_data(ds)), output_path=out,
                    rows_at_a_time=3, normalization='raw', tmp_dir=tmp, n_processors=rng.choice([1, 2]))
        except BaseException as e:   # noqa
            if isinstance(e, (KeyboardInterrupt, SystemExit)):
                raise
            row['accepted'] += 1          # refused: fine
            fx.note_case(row, ('refused', rep))
            continue
        row['accepted'] += 1
        fx.note_case(row, ('accepted', rep))
        compare_stats(row, read_stats(out), want, args, 'files with two genes swapped')
    return fx.finish_row(row)


def run(tier='quick', seed=0, jobs=1):
    rng = random.Random(1009 * (int(seed) + 1))
    quick = tier != 'thorough'
    t0 = time.time()
    budget = 32.0 if quick else 270.0
    rows = []
    with fx.scratch(prefix='verif_c09_') as d:
        d = str(d)
        with warnings.catch_warnings():
            warnings.simplefilter('ignore')
            rows.append(row_precompute(rng, d, n_datasets=18 if quick else 150, n_configs=6 if quick else 8,
                                       deadline=t0 + budget * 0.72))
            rows.append(row_truncate(rng, d, n_datasets=8 if quick else 60, deadline=t0 + budget * 0.88))
            rows.append(row_merge(rng, d, n_cases=40 if quick else 400, deadline=t0 + budget))
            rows.append(row_no_labelled_cell(rng, d, deadline=t0 + budget + 5))
            rows.append(row_large_and_fractional(random.Random(77 + int(seed)), d))
            rows.append(row_permuted_genes(random.Random(99 + int(seed)), d))
    return rows
