"""C01 bounded stand-in: the C01 contract clauses executed on REAL mapping runs
(cell_type_mapper.cli.from_specified_markers.run_mapping) over an explicitly bounded space of
taxonomies x run configurations x query encodings.  Labelled bounded; nothing here is a proof.

Also exports the task machinery (make_tasks / run_tasks) that bounded.c03 re-uses, so that C03's
arithmetic clauses are evaluated on the same family of outputs.
"""
import copy
import itertools
import json
import time
import traceback

import numpy as np

from bounded import fixture as fx

ENTRY = 'cell_type_mapper.cli.from_specified_markers.run_mapping'
ENTRY_S11 = 'cell_type_mapper.type_assignment.marker_cache_v2.create_marker_cache_from_specified_markers'

CL_COUNT = "len(results) == n_obs(query) and results[i].cell_id == obs.index[i] for every i (obs order)"
CL_LEVELS = "every record has an 'assignment' at every level of the taxonomy STORED in the reference file"
CL_NODE = "results[i][level].assignment is a node of `level` in the stored tree"
CL_PATH = "the assignments of a cell form one root-to-leaf path: parent(assignment[child_level]) == assignment[parent_level]"
CL_FLAG = ("levels of the reduced tree (after drop_level / flatten) are directly_assigned == True; removed levels are "
           "directly_assigned == False and equal the ancestor (stored tree) of the voted descendant")
CL_TREE = "output['taxonomy_tree'] is the stored tree (all levels, parent->children as in the reference file)"
CL_NOERR = ("a validator-accepted taxonomy + a marker table with >= 1 usable root gene is mapped without error "
            "(any flatten / drop_level / chunk_size / n_processors / encoding)")
CL_S11 = ("a marker group that is never consulted (single-child parent, or parent of a level removed by drop_level) "
          "listing only genes absent from the query does not abort the run when the root has usable markers")


# --------------------------------------------------------------------------------------------
# case generation
# --------------------------------------------------------------------------------------------

def covering_sample(factors, k, rng):
    """k combinations of the factor values, greedily maximising new value pairs (all pairs are
    covered long before k for the sizes used here); deterministic for a given rng"""
    names = list(factors)
    allc = [dict(zip(names, vals)) for vals in itertools.product(*[factors[n] for n in names])]
    order = rng.permutation(len(allc))
    allc = [allc[i] for i in order]
    if k >= len(allc):
        return allc

    def pairs(c):
        return {(a, repr(c[a]), b, repr(c[b])) for a, b in itertools.combinations(names, 2)}
    chosen, covered = [], set()
    pool = list(allc)
    while len(chosen) < k and pool:
        best_i, best_gain = 0, -1
        for i, c in enumerate(pool[:150]):
            g = len(pairs(c) - covered)
            if g > best_gain:
                best_i, best_gain = i, g
        c = pool.pop(best_i)
        chosen.append(c)
        covered |= pairs(c)
    return chosen


def config_factors(hierarchy, n_query, variant='c01'):
    drop = [None] + list(hierarchy[:-1]) + ['no_such_level']
    f = dict(flatten=[False, True], drop_level=drop,
             chunk_size=[1, 3, n_query, n_query + 5], n_processors=[1, 2, 3],
             n_runners_up=[0, 3], bootstrap_iteration=[1, 20])
    if variant == 'c03':
        f = dict(flatten=[False, True], drop_level=[None] + list(hierarchy[:-1]),
                 chunk_size=[4, n_query], n_processors=[1, 2],
                 bootstrap_iteration=[1, 2, 7, 20], n_runners_up=[0, 1, 2, 10],
                 bootstrap_factor=[0.3, 0.6, 1.0])
    return f


def make_tasks(tier, seed, variant='c01'):
    """list of tasks; a task = one world (built once in the worker) + its list of config overrides"""
    rng = np.random.default_rng([int(seed), 101 if variant == 'c01' else 303])
    quick = (tier == 'quick')
    encs = ['dense', 'csr', 'csc']
    tasks = []
    n_query = 18
    k_cfg = (6 if quick else 40) if variant == "c01" else (8 if quick else 60)
    for i, shape in enumerate(fx.SHAPES):
        if quick:
            my_encs = [encs[(i + seed) % 3]] if variant == 'c03' else \
                      [encs[(i + seed) % 3], encs[(i + seed + 1) % 3]]
        else:
            my_encs = encs
        for j, enc in enumerate(my_encs):
            hierarchy = fx.taxonomy_spec(shape)['hierarchy']
            cases = covering_sample(config_factors(hierarchy, n_query, variant), k_cfg, rng)
            tasks.append(dict(seed=int(seed) + j, world=dict(taxonomy=shape, encoding=enc,
                                                            zero_cell=bool((i + j) % 2), n_query=n_query),
                              cases=cases, hdf5=(variant == 'c03')))
    # random taxonomies (depth 1..3, <= 6 leaves, single-child parents likely)
    n_rand = (3 if quick else 14)
    for r in range(n_rand):
        depth = 1 + (r % 3)
        spec = fx.random_taxonomy_spec(rng, depth, max_leaves=6, allow_top_single=(r % 5 == 4))
        cases = covering_sample(config_factors(spec['hierarchy'], n_query, variant), 4 if quick else 12, rng)
        tasks.append(dict(seed=int(seed) + 50 + r,
                          world=dict(taxonomy=spec, encoding=encs[r % 3], n_query=n_query), cases=cases))
    return tasks


# --------------------------------------------------------------------------------------------
# execution (worker side)
# --------------------------------------------------------------------------------------------

def _stored_tree_no_rows(world):
    t = {'hierarchy': list(world.hierarchy)}
    for lv in world.hierarchy[:-1]:
        t[lv] = {p: list(ch) for p, ch in world.tree[lv].items()}
    t[world.hierarchy[-1]] = {lf: [] for lf in world.leaves}
    return t


def reduced_spec(world, case):
    """oracle-side derivation of the tree the election runs on"""
    spec = world.spec
    dl = case.get('drop_level')
    if dl is not None and dl in spec['hierarchy'] and dl != spec['hierarchy'][-1]:
        spec = fx.spec_without_level(spec, dl)
    if case.get('flatten'):
        spec = fx.spec_flat(spec)
    return fx.normalise_spec(spec)


def _run_task(task):
    """build one world with the package's own stages, run every case; returns outcomes (picklable)"""
    out = []
    with fx.scratch() as d:
        wkw = dict(task['world'])
        try:
            world = fx.build_world(d, task['seed'], **wkw)
        except BaseException as e:   # noqa
            kind = 'build-raised' if fx.escaped_from_package(e) else 'harness-error'
            return [dict(status=kind, case=None, world_args=dict(seed=task['seed'], **wkw),
                         error=fx.package_error_text(e) + '\n' + traceback.format_exc()[-1200:])]
        lookup_path = world.marker_lookup_path
        patched = None
        if len(world.marker_lookup.get('None', [])) == 0:
            # single node at the top level: the marker stage leaves 'None' empty.  The property's
            # pre-condition is a root with >= 1 usable gene, so supply one (never consulted).
            donor = sorted(g for v in world.marker_lookup.values() for g in v)[:3]
            lk = dict(world.marker_lookup)
            lk['None'] = donor
            lookup_path = fx.write_marker_lookup(world, lk, 'markers_root_patched')
            patched = donor
        for case in task['cases']:
            rec = dict(case=dict(case), world_args=dict(seed=task['seed'], **wkw),
                       root_markers_patched=patched,
                       obs_ids=list(world.query_cell_ids), stored_tree=_stored_tree_no_rows(world),
                       reduced=reduced_spec(world, case), marker_lookup=world.marker_lookup)
            try:
                cfg = fx.mapping_config(world, marker_lookup_path=lookup_path, hdf5=bool(task.get('hdf5')), **case)
                rec['type_assignment'] = dict(cfg['type_assignment'])
                t0 = time.time()
                try:
                    blob, paths = fx.run_mapping_world(world, cfg)
                except Exception as e:   # noqa
                    if fx.escaped_from_package(e):
                        rec.update(status='raised', error=fx.package_error_text(e))
                    else:
                        rec.update(status='harness-error', error=traceback.format_exc()[-1500:])
                    out.append(rec)
                    continue
                rec.update(status='ok', results=blob.get('results'), taxonomy_tree=blob.get('taxonomy_tree'),
                           marker_genes=blob.get('marker_genes'), wall_s=round(time.time() - t0, 3))
                if task.get('hdf5'):
                    # the same records as stored in the HDF5 output (C03 speaks of the confidence fields
                    # of the output, whatever the container)
                    try:
                        from cell_type_mapper.utils.output_utils import hdf5_to_blob
                        rec['results_hdf5'] = hdf5_to_blob(paths['hdf5']).get('results')
                    except Exception as e:   # noqa
                        rec['results_hdf5_error'] = f"{type(e).__name__}: {e}"
            except BaseException:   # noqa
                rec.update(status='harness-error', error=traceback.format_exc()[-1500:])
            out.append(rec)
    return out


def run_tasks(tasks, jobs):
    """-> (outcomes, harness_errors)"""
    outcomes, herr = [], []
    for status, val in fx.parallel_map(_run_task, tasks, jobs):
        if status != 'ok':
            herr.append(val)
            continue
        for rec in val:
            if rec['status'] == 'harness-error':
                herr.append(rec.get('error'))
            else:
                outcomes.append(rec)
    return outcomes, herr


def replay_args(rec):
    wa = dict(rec['world_args'])
    return dict(build_world=wa, mapping_config=rec['case'],
                root_markers_patched=rec.get('root_markers_patched'),
                how="w=fx.build_world(dir, **build_world); fx.run_mapping_world(w, fx.mapping_config(w, **mapping_config))")


# --------------------------------------------------------------------------------------------
# C01 clauses on one outcome
# --------------------------------------------------------------------------------------------

def check_structure(rec):
    """-> list of (clause, observed) violated by a successful run"""
    bad = []
    res = rec['results']
    ids = rec['obs_ids']
    tree = rec['stored_tree']
    h = tree['hierarchy']
    c2p = fx.child_to_parent(tree)
    reduced_h = rec['reduced']['hierarchy']
    if not isinstance(res, list) or len(res) != len(ids):
        bad.append((CL_COUNT, f"{None if res is None else len(res)} records for {len(ids)} query cells"))
        if not isinstance(res, list):
            return bad
    got_ids = [r.get('cell_id') for r in res]
    if got_ids != ids[:len(got_ids)] or len(got_ids) != len(ids):
        first = next((i for i, (a, b) in enumerate(zip(got_ids, ids)) if a != b), None)
        bad.append((CL_COUNT, f"cell ids differ from obs order; first mismatch at row {first}: "
                              f"got {got_ids[first] if first is not None else None!r}, obs has "
                              f"{ids[first] if first is not None else None!r}; got order {got_ids[:6]}..."))
    for i, r in enumerate(res):
        missing = [lv for lv in h if lv not in r or not isinstance(r[lv], dict) or 'assignment' not in r[lv]]
        if missing:
            bad.append((CL_LEVELS, f"row {i} ({r.get('cell_id')}): no assignment at level(s) {missing}"))
            continue
        for lv in h:
            nodes = set(tree[lv].keys())
            if r[lv]['assignment'] not in nodes:
                bad.append((CL_NODE, f"row {i}: {lv} -> {r[lv]['assignment']!r} not in {sorted(nodes)}"))
        for pl, cl in zip(h[:-1], h[1:]):
            a_c, a_p = r[cl]['assignment'], r[pl]['assignment']
            if c2p[cl].get(a_c) != a_p:
                bad.append((CL_PATH, f"row {i}: {cl}={a_c!r} has parent {c2p[cl].get(a_c)!r} but {pl}={a_p!r}"))
        for k, lv in enumerate(h):
            flag = r[lv].get('directly_assigned')
            want = lv in reduced_h
            if flag is not want:
                bad.append((CL_FLAG, f"row {i}: level {lv} directly_assigned={flag!r}, expected {want} "
                                     f"(reduced hierarchy {reduced_h})"))
            if not want:
                # ancestor of the voted descendant = nearest reduced level below
                below = next((x for x in h[k + 1:] if x in reduced_h), None)
                if below is not None:
                    node = r[below]['assignment']
                    ok = True
                    for cl in reversed(h[k + 1:h.index(below) + 1]):
                        if node not in c2p[cl]:
                            ok = False
                            break
                        node = c2p[cl][node]
                    if not ok or node != r[lv]['assignment']:
                        bad.append((CL_FLAG, f"row {i}: inferred {lv}={r[lv]['assignment']!r} is not the ancestor "
                                             f"({node!r}) of the voted {below}={r[below]['assignment']!r}"))
        if len(bad) > 12:
            break
    tt = rec.get('taxonomy_tree')
    if not isinstance(tt, dict) or tt.get('hierarchy') != h or any(
            {p: sorted(c) for p, c in tt.get(lv, {}).items()} != {p: sorted(c) for p, c in tree[lv].items()}
            for lv in h[:-1]) or sorted(tt.get(h[-1], {}).keys()) != sorted(tree[h[-1]].keys()):
        bad.append((CL_TREE, f"output tree {json.dumps(tt)[:300]}"))
    return bad


# --------------------------------------------------------------------------------------------
# S-11 probe: never-consulted marker group without usable genes
# --------------------------------------------------------------------------------------------

def _s11_task(task):
    out = []
    with fx.scratch() as d:
        try:
            world = fx.build_world(d, task['seed'], taxonomy=task['shape'], n_query=10)
            tree = world.tree
            h = world.hierarchy
            # the gene to remove from the query: one that is not the only root marker
            root = list(world.marker_lookup['None'])
            victim = sorted(root)[0] if len(root) > 1 else \
                sorted(set(world.reference_gene_names) - set(root))[0]
            keep = [i for i, g in enumerate(world.query_gene_names) if g != victim]
            qpath = fx.write_query(world, world.query_X[:, keep], world.query_cell_ids,
                                   [world.query_gene_names[i] for i in keep], name='query_minus_gene')
            variants = []
            for lv in h[:-1]:
                for p, ch in tree[lv].items():
                    if len(ch) == 1:
                        variants.append(dict(kind='single-child parent', group=f'{lv}/{p}', drop_level=None))
            if len(h) > 1:
                lv = h[0]
                p = sorted(tree[lv])[0]
                variants.append(dict(kind='parent of the level removed by drop_level', group=f'{lv}/{p}',
                                     drop_level=lv))
            for v in variants[:task.get('max_variants', 3)]:
                lk = {k: [g for g in gs] for k, gs in world.marker_lookup.items()}
                lk[v['group']] = [victim]
                lpath = fx.write_marker_lookup(world, lk, 'markers_s11')
                # control: same query, untouched table -> must map
                control_ok = True
                try:
                    fx.run_mapping_world(world, fx.mapping_config(
                        world, query_path=qpath, drop_level=v['drop_level']))
                except Exception:   # noqa
                    control_ok = False
                rec = dict(variant=v, victim=victim, shape=task['shape'], seed=task['seed'],
                           control_ok=control_ok, lookup_group=lk[v['group']],
                           root_usable=sorted(set(lk['None']) - {victim})[:4])
                try:
                    fx.run_mapping_world(world, fx.mapping_config(
                        world, query_path=qpath, marker_lookup_path=lpath, drop_level=v['drop_level']))
                    rec['status'] = 'ok'
                except Exception as e:   # noqa
                    if fx.escaped_from_package(e):
                        rec.update(status='raised', error=fx.package_error_text(e, 500))
                    else:
                        rec.update(status='harness-error', error=traceback.format_exc()[-1200:])
                out.append(rec)
        except BaseException:   # noqa
            out.append(dict(status='harness-error', error=traceback.format_exc()[-1500:]))
    return out


# --------------------------------------------------------------------------------------------
# entry point
# --------------------------------------------------------------------------------------------

def run(tier='quick', seed=0, jobs=1):
    seed = int(seed or 0)
    bound = ("9 fixed taxonomy shapes (depth 1-3, <= 6 leaves, single-child parents, single top node) + "
             f"{3 if tier == 'quick' else 14} random trees; query 18 cells x <= 27 genes (dense/csr/csc, one all-zero cell in "
             "half the worlds); configs = pairwise-covering sample of flatten x {None, every non-leaf level, absent "
             "level} x chunk_size {1,3,n,n+5} x n_processors {1,2,3}; bootstrap 20 iterations, factor 0.6")
    row_s = fx.new_row(ENTRY, 'seeded-random', bound, [CL_COUNT, CL_LEVELS, CL_NODE, CL_PATH, CL_FLAG, CL_TREE])
    row_e = fx.new_row(ENTRY, 'seeded-random', bound, [CL_NOERR])
    row_11 = fx.new_row(ENTRY_S11, 'seeded-random',
                        "shapes d2_single_child, d3_chain, d3_bal; one reference gene removed from the query and listed "
                        "as the only marker of a never-consulted group", [CL_S11])
    try:
        tasks = make_tasks(tier, seed, 'c01')
        outcomes, herr = run_tasks(tasks, jobs)
        for e in herr:
            fx.add_error(row_s, e)
        for rec in outcomes:
            if rec['status'] == 'build-raised':
                # the package's own reference stages refused a valid tiny world: not a C01 clause
                fx.add_error(row_e, 'world could not be built by the package stages: ' + str(rec.get('error')))
                continue
            key = (json.dumps(rec['world_args'], sort_keys=True, default=str), json.dumps(rec['case'], sort_keys=True))
            row_e['cases'] += 1
            row_e['accepted'] += 1
            fx.note_case(row_e, key, replay_args(rec))
            if rec['status'] == 'raised':
                fx.add_failure(row_e, CL_NOERR, 'raises', replay_args(rec), rec['error'])
                continue
            row_s['cases'] += 1
            row_s['accepted'] += 1
            fx.note_case(row_s, key, replay_args(rec))
            try:
                for clause, observed in check_structure(rec):
                    fx.add_failure(row_s, clause, 'ensures', replay_args(rec), observed)
            except Exception:   # noqa
                fx.add_error(row_s, traceback.format_exc()[-1500:])
    except BaseException:   # noqa
        fx.add_error(row_s, traceback.format_exc()[-2000:])
    try:
        s_tasks = [dict(shape=s, seed=seed + i, max_variants=2 if tier == 'quick' else 4)
                   for i, s in enumerate(['d2_single_child', 'd3_chain', 'd3_bal'])]
        for status, val in fx.parallel_map(_s11_task, s_tasks, jobs):
            if status != 'ok':
                fx.add_error(row_11, val)
                continue
            for rec in val:
                if rec.get('status') == 'harness-error':
                    fx.add_error(row_11, rec['error'])
                    continue
                row_11['cases'] += 1
                if not rec['control_ok']:
                    continue      # the query without that gene does not map even with the untouched table
                row_11['accepted'] += 1
                args = dict(shape=rec['shape'], seed=rec['seed'], removed_query_gene=rec['victim'],
                            marker_table_change={rec['variant']['group']: rec['lookup_group']},
                            drop_level=rec['variant']['drop_level'], group_is=rec['variant']['kind'],
                            usable_root_markers=rec['root_usable'])
                fx.note_case(row_11, args)
                if rec['status'] == 'raised':
                    fx.add_failure(row_11, CL_S11, 'raises', args, rec['error'])
    except BaseException:   # noqa
        fx.add_error(row_11, traceback.format_exc()[-2000:])
    return [fx.finish_row(row_s), fx.finish_row(row_e), fx.finish_row(row_11), row_direct(tier, seed)]


CL_DIRECT = ("the mapping stage called as a library function (election_runner.run_type_assignment_on_h5ad), with and without a "
             "results buffer directory, 1 to 3 workers: one record per cell of the query, in the order of its obs index, "
             "every level present")


def row_direct(tier, seed):
    """the mapping stage as a library call: results gathered through a Manager list (no buffer
    directory) or through per-chunk files (buffer directory), with 1, 2, 3 workers"""
    import tempfile
    from bounded import c14
    row = fx.new_row('cell_type_mapper.type_assignment.election_runner.run_type_assignment_on_h5ad', 'seeded-random',
                     "world of 6 leaves / 30 genes / 20 query cells; n_processors {1,2,3} x chunk_size {3,7,50} x results buffer "
                     "directory {none, given}; then the query re-written twice at one path and mapped again", [CL_DIRECT])
    try:
        with fx.scratch() as d:
            world = c14.make_world(str(d), int(seed) + 31)
            ids = list(world.query_cell_ids)
            levels = list(world.hierarchy)
            for nproc in (1, 2, 3):
                for chunk in (3, 7, 50):
                    for buffered in (False, True):
                        args = dict(n_processors=nproc, chunk_size=chunk, results_output_path='a fresh directory' if buffered else None)
                        row['cases'] += 1
                        scr = tempfile.mkdtemp(dir=str(d), prefix='scratch_')
                        rop = tempfile.mkdtemp(dir=str(d), prefix='buffer_') if buffered else None
                        try:
                            with fx.quiet():
                                res = c14.run_election_direct(world, nproc, scr, results_output_path=rop,
                                                              chunk_size=chunk, bootstrap_iteration=3)
                        except Exception as e:   # noqa
                            if not fx.escaped_from_package(e):
                                raise
                            row['accepted'] += 1
                            fx.add_failure(row, CL_DIRECT, 'raises', args, fx.package_error_text(e, 300))
                            continue
                        row['accepted'] += 1
                        fx.note_case(row, args)
                        got = [r.get('cell_id') for r in res]
                        if got != ids:
                            fx.add_failure(row, CL_DIRECT, 'ensures', args,
                                           f"{len(got)} records; order {got[:8]}... expected {ids[:8]}...")
                        elif any(lv not in r or 'assignment' not in r[lv] for r in res for lv in levels):
                            fx.add_failure(row, CL_DIRECT, 'ensures', args, 'a record lacks a level')
            # a history: the query file is re-written AT THE SAME PATH with its cells in another order and
            # mapped again in this process - the records follow the file as it is now
            import numpy as np
            X = np.asarray(world.query_X)
            genes = list(world.query_gene_names)
            original = world.query_path
            try:
                for step, perm in enumerate([list(range(len(ids)))[::-1], list(range(1, len(ids))) + [0]]):
                    new_ids = [ids[i] for i in perm]
                    world.query_path = fx.write_query(world, X[perm], new_ids, genes, encoding='csr', reuse_path=True)
                    args = dict(history=f'query re-written at the same path, step {step}', n_processors=2, chunk_size=7)
                    row['cases'] += 1
                    scr = tempfile.mkdtemp(dir=str(d), prefix='scratch_')
                    try:
                        with fx.quiet():
                            res = c14.run_election_direct(world, 2, scr, results_output_path=None, chunk_size=7,
                                                          bootstrap_iteration=3)
                    except Exception as e:   # noqa
                        if not fx.escaped_from_package(e):
                            raise
                        row['accepted'] += 1
                        fx.add_failure(row, CL_DIRECT, 'raises', args, fx.package_error_text(e, 300))
                        continue
                    row['accepted'] += 1
                    fx.note_case(row, args)
                    got = [r.get('cell_id') for r in res]
                    if got != new_ids:
                        fx.add_failure(row, CL_DIRECT, 'ensures', args,
                                       f"order {got[:6]}... but the file now lists {new_ids[:6]}...")
            finally:
                world.query_path = original
    except BaseException:   # noqa
        fx.add_error(row, traceback.format_exc()[-1500:])
    return fx.finish_row(row)
