"""Bounded stand-in for C16 (never counted as proved): `validate_h5ad` on tiny real h5ad files.

Every case builds an h5ad file under a fresh directory in /tmp (removed afterwards), hashes its
bytes, runs the real `cell_type_mapper.validation.validate_h5ad.validate_h5ad` and checks the
clauses of the property statement:

  input-unchanged     the input file's bytes are the same before and after (sha256), also when the
                      call raises
  cells               new file: same cell ids in the same order, obs columns equal
  genes               new file: same number of genes, same order: var index = mapper(input names)
  x-equal             rounding off (or nothing to round): X of the new file == requested layer exactly
                      (values and dtype); sparse structure equal
  x-rounded           rounding on and some value further than 1e-10 from an integer: every value
                      moved by <= 1/2 to an integer, dtype integer and wide enough (no wrap-around)
  renaming-recorded   uns['AIBS_CDM_gene_mapping'] == {old: new for changed names};
                      uns['AIBS_CDM_n_mapped_genes'] == n_genes - n_placeholders
  placeholders        unknown names -> names starting with 'unmapped_', pairwise distinct
  no-change           nothing to change (X requested, ids already Ensembl, integers) => (None, ..) and
                      no new file
  duplicates          duplicate cell ids / duplicate or empty gene names / two genes mapping to one
                      id => RuntimeError and no new file
  scratch             the tmp_dir given is empty afterwards (C19)
  aliasing (D-8)      valid_h5ad_path == h5ad_path must not destroy the input  [known finding]
  placeholder-format  string axiom used by the proofs: the counter can be read back from
                      f"unmapped_{k}_{ts}" also after cutting at the first '.'
"""
import hashlib
import os
import random
import shutil
import tempfile
import warnings

import numpy as np

FORM = 'seeded-random over explicit boundary classes'


# ---------------------------------------------------------------------------------------------
# fixtures
# ---------------------------------------------------------------------------------------------
LOOKUP = {'Xkr4': 'ENSMUSG00000051951', 'Gm1992': 'ENSMUSG00000089699', 'Rp1': 'ENSMUSG00000025900',
          'Sox17': 'ENSMUSG00000025902', 'Mrpl15': 'ENSMUSG00000033845', 'Rp1_alias': 'ENSMUSG00000025900'}
ENSEMBL = ['ENSMUSG00000000001', 'ENSMUSG00000000028.7', 'ENSMUSG00000000037', 'ENSG00000139618.15']
UNKNOWN = ['nonsense', 'zzz', 'gene,with,commas', 'q 1', 'ENSG', 'unmapped_0_x']


def sha256(path):
    h = hashlib.sha256()
    with open(path, 'rb') as f:
        for blk in iter(lambda: f.read(1 << 20), b''):
            h.update(blk)
    return h.hexdigest()


def write_h5ad(path, X, obs_names, var_names, encoding='dense', layer='X', chunks=None, obs_cols=True):
    """X: 2-D numpy array (values and dtype as wanted).  encoding dense / csr / csc; the matrix goes
    to X or to layers[layer] (X then holds a decoy).  chunks: None (anndata default) or an int
    chunk edge used to re-chunk the stored datasets through h5py."""
    import anndata
    import h5py
    import pandas as pd
    import scipy.sparse as sp
    n0, n1 = X.shape
    obs = pd.DataFrame({'cell_id': list(obs_names)}).set_index('cell_id')
    if obs_cols:
        obs['batch'] = ['b%d' % (i % 2) for i in range(n0)]
        obs['n_counts'] = [float(i) + 0.25 for i in range(n0)]
    var = pd.DataFrame({'gene_id': list(var_names)}).set_index('gene_id')
    var['len'] = [10 * (i + 1) for i in range(n1)]
    mat = {'dense': lambda m: np.array(m), 'csr': sp.csr_matrix, 'csc': sp.csc_matrix}[encoding](X)
    with warnings.catch_warnings():
        warnings.simplefilter('ignore')
        if layer == 'X':
            a = anndata.AnnData(X=mat, obs=obs, var=var)
        else:
            decoy = np.full((n0, n1), 7.75, dtype=np.float32)
            a = anndata.AnnData(X=decoy, obs=obs, var=var, layers={layer: mat})
        a.uns['note'] = 'fixture'
        a.write_h5ad(path)
    if chunks is not None:
        key = 'X' if layer == 'X' else f'layers/{layer}'
        with h5py.File(path, 'a') as f:
            names = [key] if encoding == 'dense' else [f'{key}/data', f'{key}/indices']
            for nm in names:
                d = f[nm]
                data, attrs = d[()], dict(d.attrs)
                if data.size == 0:
                    continue
                ch = tuple(max(1, min(chunks, s)) for s in data.shape)
                del f[nm]
                nd = f.create_dataset(nm, data=data, chunks=ch)
                for k, v in attrs.items():
                    nd.attrs.create(name=k, data=v)
    return path


def read_layer(path, layer='X'):
    """(dense 2-D array of the layer, stored dtype, encoding-type, sparse triple or None)"""
    import h5py
    import scipy.sparse as sp
    key = 'X' if layer == 'X' else f'layers/{layer}'
    with h5py.File(path, 'r') as f:
        node = f[key]
        enc = node.attrs['encoding-type']
        if enc == 'array':
            arr = node[()]
            return arr, arr.dtype, enc, None
        data, indices, indptr = node['data'][()], node['indices'][()], node['indptr'][()]
        shape = tuple(node.attrs['shape'])
    cls = sp.csr_matrix if 'csr' in enc else sp.csc_matrix
    m = cls((data, indices, indptr), shape=shape)
    return np.asarray(m.todense()), data.dtype, enc, (data, indices, indptr)


def read_df(path, name):
    from cell_type_mapper.utils.anndata_utils import read_df_from_h5ad
    return read_df_from_h5ad(path, name)


def read_uns(path):
    from cell_type_mapper.utils.anndata_utils import read_uns_from_h5ad
    return read_uns_from_h5ad(path)


# ---------------------------------------------------------------------------------------------
# case generation
# ---------------------------------------------------------------------------------------------
VALUE_CLASSES = ['ints-as-floats', 'non-integers', 'negatives', 'boundary-255.5', 'boundary-65535.5',
                 'int-dtype', 'tiny-eps', 'all-zero', 'big']
GENE_CLASSES = ['all-ensembl', 'ensembl-with-version', 'known-symbols', 'unknown-only-some', 'mix',
                'collision', 'duplicate-name', 'empty-name', 'nothing-maps']


def gen_case(rng, idx):
    n0, n1 = rng.randint(1, 4), rng.randint(2, 5)
    vclass = VALUE_CLASSES[idx % len(VALUE_CLASSES)] if rng.random() < 0.7 else rng.choice(VALUE_CLASSES)
    gclass = rng.choice(GENE_CLASSES[:5]) if rng.random() < 0.75 else rng.choice(GENE_CLASSES)
    dtype = np.float32 if rng.random() < 0.5 else np.float64
    X = np.array([[float(rng.choice([0, 0, 1, 2, 3, 17, 40])) for _ in range(n1)] for _ in range(n0)])
    i, j = rng.randrange(n0), rng.randrange(n1)
    if vclass == 'non-integers':
        X[i, j] = rng.choice([0.25, 1.5, 2.5, 3.49, 30.7])
    elif vclass == 'negatives':
        X[i, j] = rng.choice([-1.0, -3.5, -0.5, -200.25])
        X[rng.randrange(n0), rng.randrange(n1)] += 0.25
    elif vclass == 'boundary-255.5':
        X[i, j] = rng.choice([255.5, 255.49, 254.5, 127.5, 255.0, 256.0])
    elif vclass == 'boundary-65535.5':
        X[i, j] = rng.choice([65535.5, 65535.25, 32767.5, 65536.5])
        dtype = np.float64
    elif vclass == 'int-dtype':
        dtype = rng.choice([np.uint8, np.int32, np.int64, np.uint16])
    elif vclass == 'tiny-eps':
        X[i, j] = 3.0 + rng.choice([1e-12, 5e-11, 2e-10, 1e-9])
        dtype = np.float64
    elif vclass == 'all-zero':
        X[:] = 0.0
    elif vclass == 'big':
        X[i, j] = rng.choice([2.0**31 - 0.5, 2.0**32 + 0.5, 2.0**31 + 0.25])
        dtype = np.float64
    X = X.astype(dtype)
    if gclass == 'all-ensembl':
        genes = rng.sample([e for e in ENSEMBL if '.' not in e] + ['ENSMUSG00000000049', 'ENSMUSG00000000056',
                                                                   'ENSMUSG00000000058'], n1)
    elif gclass == 'ensembl-with-version':
        genes = rng.sample(ENSEMBL + ['ENSMUSG00000000049.2', 'ENSMUSG00000000056'], n1)
        if not any('.' in g for g in genes):
            genes[0] = 'ENSMUSG00000000028.7'
    elif gclass == 'known-symbols':
        genes = rng.sample([k for k in LOOKUP if k != 'Rp1_alias'], n1)
    elif gclass == 'unknown-only-some':
        genes = rng.sample(UNKNOWN, min(n1 - 1, len(UNKNOWN))) + ['Xkr4']
        genes = (genes + ['ENSMUSG00000000001', 'ENSMUSG00000000037', 'Sox17'])[:n1]
        rng.shuffle(genes)
    elif gclass == 'mix':
        pool = [e for e in ENSEMBL] + [k for k in LOOKUP if k != 'Rp1_alias'] + UNKNOWN
        genes = rng.sample(pool, n1)
    elif gclass == 'collision':
        genes = rng.sample(['Xkr4', 'Sox17', 'ENSMUSG00000000001', 'nonsense'], n1 - 2) + ['Rp1', 'Rp1_alias']
        if rng.random() < 0.5:
            genes[-1] = 'ENSMUSG00000025900.3'     # an Ensembl id that a symbol of the file also maps to
        rng.shuffle(genes)
    elif gclass == 'duplicate-name':
        genes = rng.sample(['Xkr4', 'Sox17', 'ENSMUSG00000000001', 'nonsense', 'Gm1992'], n1 - 1)
        genes.append(genes[0])
        rng.shuffle(genes)
    elif gclass == 'empty-name':
        genes = rng.sample(['Xkr4', 'Sox17', 'ENSMUSG00000000001', 'nonsense', 'Gm1992'], n1 - 1) + ['']
        rng.shuffle(genes)
    else:   # nothing-maps
        genes = rng.sample(UNKNOWN, n1) if n1 <= len(UNKNOWN) else UNKNOWN[:n1]
    cells = ['cell_%d' % k for k in range(n0)]
    if rng.random() < 0.3:
        cells = rng.sample(['b', 'a', '10', '9', 'c,d'], n0)
    dup_cells = rng.random() < 0.08 and n0 >= 2
    if dup_cells:
        cells[-1] = cells[0]
    return dict(idx=idx, X=X, vclass=vclass, gclass=gclass, genes=genes, cells=cells, dup_cells=dup_cells,
                encoding=rng.choice(['dense', 'csr', 'csc']), layer=rng.choice(['X', 'X', 'raw']),
                chunks=rng.choice([None, None, 1, 2, 3]), round_to_int=rng.random() < 0.7,
                use_output_dir=rng.random() < 0.4, expected_max=rng.choice([20, None]),
                with_log=rng.random() < 0.3)


def describe(case):
    return {k: (case[k].tolist() if k == 'X' else case[k]) for k in
            ('idx', 'vclass', 'gclass', 'genes', 'cells', 'encoding', 'layer', 'chunks', 'round_to_int',
             'use_output_dir', 'expected_max', 'with_log', 'X')} | {'dtype': str(case['X'].dtype)}


def expected_mapping(genes):
    """independent model of the renaming: (new names with placeholders as None, n_unknown)"""
    from pyvc.ext.outputs import _is_ens_native, _strip_version_native
    out, n_unknown = [], 0
    for g in genes:
        if _is_ens_native(g):
            out.append(_strip_version_native(g))
        elif g in LOOKUP:
            out.append(_strip_version_native(LOOKUP[g]))
        else:
            out.append(None)
            n_unknown += 1
    return out, n_unknown


# ---------------------------------------------------------------------------------------------
# one case
# ---------------------------------------------------------------------------------------------
def check_case(case, root):
    """returns (accepted, failures) ; failures = list of dict(clause, kind, args, observed)"""
    import pandas as pd
    from cell_type_mapper.validation.validate_h5ad import validate_h5ad
    from cell_type_mapper.gene_id.gene_id_mapper import GeneIdMapper
    from cell_type_mapper.cli.cli_log import CommandLog
    fails = []

    def fail(clause, observed, kind='clause'):
        fails.append(dict(clause=clause, kind=kind, args=describe(case), observed=str(observed)[:600]))

    d = tempfile.mkdtemp(dir=root, prefix='case_')
    src = os.path.join(d, 'input.h5ad')
    tmp = os.path.join(d, 'scratch')
    outdir = os.path.join(d, 'out')
    os.mkdir(tmp)
    os.mkdir(outdir)
    write_h5ad(src, case['X'], case['cells'], case['genes'], encoding=case['encoding'],
               layer=case['layer'], chunks=case['chunks'])
    h0 = sha256(src)
    kw = dict(h5ad_path=src, gene_id_mapper=GeneIdMapper(dict(LOOKUP)), tmp_dir=tmp, layer=case['layer'],
              round_to_int=case['round_to_int'], expected_max=case['expected_max'],
              log=CommandLog() if case['with_log'] else None)
    valid_path = os.path.join(outdir, 'validated.h5ad')
    if case['use_output_dir']:
        kw['output_dir'] = outdir
    else:
        kw['valid_h5ad_path'] = valid_path
    exc = result = None
    import contextlib
    import io
    with warnings.catch_warnings(), contextlib.redirect_stdout(io.StringIO()):
        warnings.simplefilter('ignore')
        try:
            result = validate_h5ad(**kw)
        except Exception as e:      # noqa
            exc = e
    # ---- input untouched, scratch empty (on every outcome) --------------------------------------
    if not os.path.exists(src) or sha256(src) != h0:
        fail('input-unchanged', 'input file bytes differ / file missing after the call')
    if os.listdir(tmp):
        fail('scratch', f'scratch dir not empty: {os.listdir(tmp)}')
    genes, cells = case['genes'], case['cells']
    mapped, n_unknown = expected_mapping(genes)
    known = [m for m in mapped if m is not None]
    reject = (case['dup_cells'] or len(set(genes)) != len(genes) or '' in genes
              or len(set(known)) != len(known))
    new_files = [f for f in os.listdir(outdir)]
    if reject:
        if not isinstance(exc, RuntimeError):
            fail('duplicates', f'expected RuntimeError, got {type(exc).__name__ if exc else result}: {exc}')
        if new_files:
            fail('duplicates', f'a file was written although the input is rejected: {new_files}')
        shutil.rmtree(d, ignore_errors=True)
        return True, fails
    if n_unknown == len(genes):
        # the mapper refuses a file in which no gene can be identified (GeneIdMapper contract)
        if not isinstance(exc, RuntimeError):
            fail('nothing-maps', f'expected RuntimeError, got {type(exc).__name__ if exc else result}')
        shutil.rmtree(d, ignore_errors=True)
        return True, fails
    orig, odtype, oenc, otriple = read_layer(src, case['layer'])
    stored = otriple[0] if otriple is not None else orig.ravel()
    if exc is not None:
        tag = ''
        if otriple is not None and stored.size == 0:
            tag = ' [S-13: sparse layer without a stored value]'
        fail('no-error' + tag, f'{type(exc).__name__}: {exc}', kind='exception')
        shutil.rmtree(d, ignore_errors=True)
        return True, fails
    out_path, has_warnings = result
    is_float = np.issubdtype(odtype, np.floating)
    needs_round = bool(case['round_to_int'] and is_float and stored.size
                       and np.abs(stored - np.round(stored)).max() > 1e-10)
    names_change = [m for m in mapped] != list(genes)
    change = case['layer'] != 'X' or names_change or needs_round
    if not change:
        if out_path is not None or new_files:
            fail('no-change', f'returned {out_path}, files written: {new_files}')
        shutil.rmtree(d, ignore_errors=True)
        return True, fails
    if out_path is None or not os.path.exists(str(out_path)):
        fail('new-file', f'a change was needed but returned {out_path}; files: {new_files}')
        shutil.rmtree(d, ignore_errors=True)
        return True, fails
    out_path = str(out_path)
    if not case['use_output_dir'] and os.path.abspath(out_path) != os.path.abspath(valid_path):
        fail('new-file', f'written to {out_path} instead of {valid_path}')
    try:
        # ---- cells ---------------------------------------------------------------------------
        obs0, obs1 = read_df(src, 'obs'), read_df(out_path, 'obs')
        if list(obs0.index.values) != list(obs1.index.values):
            fail('cells', f'{list(obs0.index.values)} -> {list(obs1.index.values)}')
        try:
            pd.testing.assert_frame_equal(obs0, obs1)
        except AssertionError as e:
            fail('cells', f'obs annotations differ: {e}')
        # ---- genes ---------------------------------------------------------------------------
        var0, var1 = read_df(src, 'var'), read_df(out_path, 'var')
        new_names = list(var1.index.values)
        if len(new_names) != len(genes):
            fail('genes', f'{len(genes)} genes -> {len(new_names)}')
        else:
            for g, m, nn in zip(genes, mapped, new_names):
                if m is not None and nn != m:
                    fail('genes', f'{g!r} -> {nn!r}, expected {m!r}')
                if m is None and not str(nn).startswith('unmapped_'):
                    fail('placeholders', f'{g!r} -> {nn!r} is not a placeholder')
            ph = [nn for m, nn in zip(mapped, new_names) if m is None]
            if len(set(ph)) != len(ph) or len(set(new_names)) != len(new_names):
                fail('placeholders', f'names not unique within the file: {new_names}')
            if list(var0['len'].values) != list(var1['len'].values):
                fail('genes', 'var annotation column `len` changed / re-ordered')
        # ---- X -------------------------------------------------------------------------------
        new, ndtype, nenc, ntriple = read_layer(out_path, 'X')
        if new.shape != orig.shape:
            fail('x-equal', f'shape {orig.shape} -> {new.shape}')
        elif needs_round:
            if not np.issubdtype(ndtype, np.integer):
                fail('x-rounded', f'dtype {ndtype} is not an integer type')
            else:
                ii = np.iinfo(ndtype)
                lo, hi = float(np.round(stored.min())), float(np.round(stored.max()))
                if not (ii.min <= lo and hi <= ii.max):
                    fail('x-rounded', f'dtype {ndtype} does not hold [{lo}, {hi}]')
            diff = np.abs(new.astype(np.float64) - orig.astype(np.float64))
            if diff.max() > 0.5:
                fail('x-rounded', f'a value moved by {diff.max()}: {orig.tolist()} -> {new.tolist()}')
            if not np.array_equal(new.astype(np.float64), np.round(orig.astype(np.float64))):
                fail('x-rounded', f'not np.round of the input: {orig.tolist()} -> {new.tolist()}')
        else:
            if ndtype != odtype:
                fail('x-equal', f'dtype {odtype} -> {ndtype} although no rounding was needed / requested')
            if not np.array_equal(new, orig):
                fail('x-equal', f'{orig.tolist()} -> {new.tolist()}')
        if ('csr' in oenc) != ('csr' in nenc) or ('csc' in oenc) != ('csc' in nenc):
            fail('x-equal', f'encoding {oenc} -> {nenc}')
        elif otriple is not None and ntriple is not None:
            if not (np.array_equal(otriple[1], ntriple[1]) and np.array_equal(otriple[2], ntriple[2])):
                fail('x-equal', 'sparse structure (indices / indptr) changed')
        # ---- records -------------------------------------------------------------------------
        uns = read_uns(out_path)
        if uns.get('AIBS_CDM_n_mapped_genes') != len(genes) - n_unknown:
            fail('renaming-recorded', f"n_mapped_genes={uns.get('AIBS_CDM_n_mapped_genes')} "
                                      f"expected {len(genes) - n_unknown}")
        want = {g: nn for g, nn in zip(genes, new_names) if g != nn}
        got = uns.get('AIBS_CDM_gene_mapping')
        if names_change:
            if got is None or dict(got) != want:
                fail('renaming-recorded', f'gene mapping {got} expected {want}')
        elif got:
            fail('renaming-recorded', f'gene mapping recorded although no name changed: {got}')
    except Exception as e:      # noqa
        import traceback
        fail('checker', f'{type(e).__name__}: {e}\n{traceback.format_exc()[-400:]}', kind='checker-error')
    shutil.rmtree(d, ignore_errors=True)
    return True, fails


def check_aliasing(rng, root):
    """D-8: valid_h5ad_path == h5ad_path.  Whatever the call does (raise, return None), the input
    must still be there with the same bytes."""
    from cell_type_mapper.validation.validate_h5ad import validate_h5ad
    from cell_type_mapper.gene_id.gene_id_mapper import GeneIdMapper
    fails = []
    for needs_change in (False, True):
        d = tempfile.mkdtemp(dir=root, prefix='alias_')
        src = os.path.join(d, 'input.h5ad')
        tmp = os.path.join(d, 'scratch')
        os.mkdir(tmp)
        X = np.array([[1, 0, 30], [0, 2, 5]], dtype=np.float32)
        genes = ['ENSMUSG00000000001', 'ENSMUSG00000000037', 'Xkr4' if needs_change else 'ENSMUSG00000051951']
        write_h5ad(src, X, ['c0', 'c1'], genes)
        h0 = sha256(src)
        obs = None
        with warnings.catch_warnings():
            warnings.simplefilter('ignore')
            try:
                obs = validate_h5ad(h5ad_path=src, gene_id_mapper=GeneIdMapper(dict(LOOKUP)), tmp_dir=tmp,
                                    valid_h5ad_path=src, layer='X', round_to_int=True)
            except Exception as e:      # noqa
                obs = f'{type(e).__name__}: {e}'
        if not os.path.exists(src):
            fails.append(dict(clause='aliasing (D-8): input-unchanged', kind='clause',
                              args=dict(valid_h5ad_path='== h5ad_path', needs_change=needs_change),
                              observed=f'input file deleted; call returned {obs}'))
        elif sha256(src) != h0:
            fails.append(dict(clause='aliasing (D-8): input-unchanged', kind='clause',
                              args=dict(valid_h5ad_path='== h5ad_path', needs_change=needs_change),
                              observed=f'input file overwritten; call returned {obs}'))
        shutil.rmtree(d, ignore_errors=True)
    return fails


def check_placeholder_format(rng, n):
    """audit of the two string axioms the C16.b proofs use (pyvc/ext/outputs.fstring_unmapped) and
    of np_rint (round-half-even, |r - x| <= 1/2)"""
    from pyvc.ext.outputs import _placeholder_ct_native, _strip_version_native
    fails = []
    alphabet = ['_', '.', '-', '0', '7', 'a', ' ', 'unmapped_', '1.5', '']
    for _ in range(n):
        k = rng.choice([0, 1, 9, 10, 123456, -3, rng.randint(0, 10**9)])
        ts = ''.join(rng.choice(alphabet) for _ in range(rng.randint(0, 6)))
        s = f"unmapped_{k}_{ts}"
        if _placeholder_ct_native(s) != k or _placeholder_ct_native(_strip_version_native(s)) != k \
                or _placeholder_ct_native(s.split('.')[0]) != k:
            fails.append(dict(clause='placeholder-format', kind='axiom', args=dict(k=k, ts=ts), observed=s))
        x = rng.choice([0.5, 1.5, 2.5, -0.5, -1.5, 255.5, 65535.5, rng.uniform(-1e6, 1e6)])
        r = float(np.round(x))
        if abs(r - x) > 0.5 or r != int(r) or (abs(r - x) == 0.5 and int(r) % 2 != 0):
            fails.append(dict(clause='np_rint axiom', kind='axiom', args=dict(x=x), observed=r))
    return fails


# ---------------------------------------------------------------------------------------------
def run(tier='quick', seed=0, jobs=1):
    import sys
    import time
    repo = os.environ.get('VERIF_REPO', '/repo')
    if os.path.join(repo, 'src') not in sys.path:
        sys.path.insert(0, os.path.join(repo, 'src'))
    budget = 28.0 if tier == 'quick' else 240.0
    max_cases = 400 if tier == 'quick' else 6000
    rng = random.Random(seed * 7919 + 16)
    root = tempfile.mkdtemp(dir='/tmp', prefix='verif_c16_')
    t0 = time.time()
    cases = accepted = 0
    seen = set()
    failures = []
    classes = {}
    n_known = 0
    try:
        alias_fails = check_aliasing(rng, root)
        fmt_fails = check_placeholder_format(rng, 2000 if tier == 'quick' else 20000)
        idx = 0
        while idx < max_cases and time.time() - t0 < budget:
            case = gen_case(rng, idx)
            idx += 1
            cases += 1
            ok, fails = check_case(case, root)
            if ok:
                accepted += 1
            key = repr(describe(case) | {'idx': 0})
            seen.add(key)
            classes[(case['vclass'], case['encoding'])] = classes.get((case['vclass'], case['encoding']), 0) + 1
            for f in fails:
                known = 'S-13' in f['clause']
                n_known += known
                # at most two witnesses of the known all-zero-sparse finding, so that they cannot
                # crowd out other failures
                if len(failures) < 12 and (not known or n_known <= 2):
                    failures.append(f)
    finally:
        shutil.rmtree(root, ignore_errors=True)
    bound = ('1-4 cells x 2-5 genes; dense/CSR/CSC; X or layer; chunk edge None/1/2/3; value classes '
             + ','.join(VALUE_CLASSES) + '; gene classes ' + ','.join(GENE_CLASSES)
             + '; rounding on/off; valid_h5ad_path or output_dir; log on/off')
    return [
        dict(function='cell_type_mapper.validation.validate_h5ad.validate_h5ad', form=FORM, bound=bound,
             cases=cases, accepted=accepted, distinct=len(seen), failures=failures,
             clauses=['input-unchanged', 'cells', 'genes', 'x-equal', 'x-rounded', 'renaming-recorded',
                      'placeholders', 'no-change', 'duplicates', 'scratch'],
             sample=str(sorted(classes.items())[:6])),
        dict(function='cell_type_mapper.validation.validate_h5ad.validate_h5ad[aliasing]',
             form='two fixed cases (no change needed / change needed)', bound='valid_h5ad_path == h5ad_path',
             cases=2, accepted=2, distinct=2, failures=alias_fails),
        dict(function='pyvc.ext.outputs[string and rounding axioms]', form='seeded-random',
             bound='counters incl. negative / 10^9, timestamps over {_ . - digits letters}, halves and boundaries',
             cases=2000 if tier == 'quick' else 20000, accepted=2000 if tier == 'quick' else 20000,
             distinct=2000 if tier == 'quick' else 20000, failures=fmt_fails),
    ]


if __name__ == '__main__':
    import json
    import sys
    sys.path.insert(0, '/verif')
    out = run(tier=sys.argv[1] if len(sys.argv) > 1 else 'quick', seed=int(sys.argv[2]) if len(sys.argv) > 2 else 0)
    for r in out:
        print(json.dumps({k: v for k, v in r.items() if k != 'failures'}, default=str)[:600])
        for f in r['failures']:
            print('   FAIL', json.dumps(f, default=str)[:1500])
