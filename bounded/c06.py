"""C06 bounded stand-in: metamorphic relations on REAL mapping runs with bootstrap factor 1 —
a cell's record does not depend on the company it is mapped in.

Relations (each compared per cell id, floats to 1e-6, everything else exactly):
  permute the query rows; delete other cells; duplicate cells under new ids (copies must equal the
  original); add foreign cells; change chunk_size / n_processors.
"""
import json
import traceback

import numpy as np

from bounded import fixture as fx
from bounded import c01

ENTRY = c01.ENTRY
TOL = 1e-6

CL_PERM = "factor 1: permuting the query rows leaves every cell's record unchanged (floats to 1e-6)"
CL_DEL = "factor 1: deleting other cells leaves the remaining cells' records unchanged"
CL_DUP = "factor 1: duplicating cells under new ids leaves the originals unchanged and every copy gets the original's record"
CL_ADD = "factor 1: adding foreign cells leaves the original cells' records unchanged"
CL_CHUNK = "factor 1: chunk_size and n_processors do not change any record"
CL_ORDER = "the transformed run still returns one record per cell in the transformed file's order"


def strip(rec):
    return {k: v for k, v in rec.items() if k != 'cell_id'}


def compare_by_id(base, other, ids, rename=None):
    """first difference over `ids` (ids of the base run; rename maps base id -> id in other)"""
    b = fx.by_cell_id(base)
    o = fx.by_cell_id(other)
    for cid in ids:
        oid = rename[cid] if rename else cid
        if oid not in o:
            return f"cell {oid!r} missing from the transformed run"
        d = fx.record_diff(strip(b[cid]), strip(o[oid]), TOL)
        if d:
            return f"cell {cid!r}: {d}"
    return None


def order_ok(blob, ids):
    got = [r.get('cell_id') for r in blob.get('results', [])]
    return None if got == list(ids) else f"result order {got[:5]}... != file order {list(ids)[:5]}... ({len(got)} vs {len(ids)})"


def _task(task):
    """one world; base run + transformed runs.  returns list of dict(relation, clause, args, status, observed)"""
    out = []
    with fx.scratch() as d:
        try:
            world = fx.build_world(d, task['seed'], **task['world'])
            rng = np.random.default_rng([task['seed'], 606])
            common = dict(bootstrap_factor=1.0, bootstrap_iteration=3, n_runners_up=3,
                          flatten=task.get('flatten', False), drop_level=task.get('drop_level'))
            if task.get('no_tmp_dir'):
                # without a scratch directory the query file is read in place (not through a private copy)
                common['tmp_dir'] = None
            if task.get('max_gb') is not None:
                # a memory budget so small that the CSC -> CSR rewrite of the query reads its values in
                # several load chunks (boundaries fall inside columns and move when cells are added / removed)
                common['max_gb'] = task['max_gb']
            base_cfg = dict(common, chunk_size=7, n_processors=2)
            base, _ = fx.run_mapping_world(world, fx.mapping_config(world, **base_cfg))
        except BaseException as e:   # noqa
            return [dict(status='harness-error', error='base run: ' + fx.package_error_text(e) +
                         traceback.format_exc()[-1000:])]
        X, ids, genes = world.query_X, list(world.query_cell_ids), list(world.query_gene_names)
        if world.query_normalization != 'raw':
            X = fx.to_log2cpm(X)
        n = len(ids)
        wa = dict(seed=task['seed'], **task['world'])

        def attempt(relation, clause, detail, fn):
            rec = dict(relation=relation, clause=clause, args=dict(build_world=wa, base_config=base_cfg,
                                                                   transform=detail))
            try:
                rec['status'], rec['observed'] = 'ok', fn()
            except Exception as e:   # noqa
                if fx.escaped_from_package(e):
                    rec['status'], rec['observed'] = 'raised', fx.package_error_text(e)
                else:
                    rec['status'], rec['observed'] = 'harness-error', traceback.format_exc()[-1200:]
            out.append(rec)

        enc = task['world'].get('encoding', 'dense')

        def run_q(Xn, idn, cfg=None):
            # every transformed query of this world is written to the SAME path, one after the other, in
            # this process: a result must not depend on what was read from that path before
            p = fx.write_query(world, Xn, idn, genes, encoding=enc, reuse_path=True)
            blob, _ = fx.run_mapping_world(world, fx.mapping_config(world, query_path=p, **(cfg or base_cfg)))
            return blob

        for rep in range(task.get('reps', 1)):
            perm = rng.permutation(n)

            def f_perm():
                blob = run_q(X[perm], [ids[i] for i in perm])
                return order_ok(blob, [ids[i] for i in perm]) or compare_by_id(base, blob, ids)
            attempt('permute', CL_PERM, dict(row_permutation=perm.tolist()), f_perm)

            keep = np.sort(rng.choice(n, int(rng.integers(1, n)), replace=False))

            def f_del():
                blob = run_q(X[keep], [ids[i] for i in keep])
                return order_ok(blob, [ids[i] for i in keep]) or compare_by_id(base, blob, [ids[i] for i in keep])
            attempt('delete', CL_DEL, dict(kept_rows=keep.tolist()), f_del)

            dups = rng.choice(n, int(rng.integers(1, 6)), replace=True)
            pos = rng.permutation(n + len(dups))

            def f_dup():
                Xn = np.vstack([X, X[dups]])[pos]
                idn = (ids + [f'{ids[i]}_dup{k}' for k, i in enumerate(dups)])
                idn = [idn[i] for i in pos]
                blob = run_q(Xn, idn)
                msg = order_ok(blob, idn) or compare_by_id(base, blob, ids)
                if msg:
                    return msg
                for k, i in enumerate(dups):
                    m = compare_by_id(base, blob, [ids[i]], {ids[i]: f'{ids[i]}_dup{k}'})
                    if m:
                        return 'copy differs from its original: ' + m
                return None
            attempt('duplicate', CL_DUP, dict(duplicated_rows=dups.tolist(), placement=pos.tolist()), f_dup)

            n_new = int(rng.integers(1, 7))
            foreign = np.rint(rng.uniform(0, 150, (n_new, X.shape[1])) * (rng.random((n_new, X.shape[1])) < 0.7))
            foreign[:, 0] += 1.0
            if world.query_normalization != 'raw':
                foreign = fx.to_log2cpm(foreign)
            pos2 = rng.permutation(n + n_new)

            def f_add():
                Xn = np.vstack([X, foreign])[pos2]
                idn = ids + [f'foreign_{k}' for k in range(n_new)]
                idn = [idn[i] for i in pos2]
                blob = run_q(Xn, idn)
                return order_ok(blob, idn) or compare_by_id(base, blob, ids)
            attempt('add', CL_ADD, dict(foreign_rows=foreign.tolist(), placement=pos2.tolist()), f_add)

        for cs, npr in task.get('chunking', [(1, 1), (3, 3), (n, 1), (n + 5, 2), (5, 2)]):
            def f_chunk(cs=cs, npr=npr):
                blob, _ = fx.run_mapping_world(world, fx.mapping_config(
                    world, **dict(common, chunk_size=cs, n_processors=npr)))
                return order_ok(blob, ids) or compare_by_id(base, blob, ids)
            attempt('chunking', CL_CHUNK, dict(chunk_size=cs, n_processors=npr), f_chunk)
    return out


def tasks_for(tier, seed):
    quick = tier == 'quick'
    plan = [
        dict(world=dict(taxonomy='d3_len', encoding='dense'), flatten=False, drop_level=None),
        dict(world=dict(taxonomy='d2_bal', encoding='csr', zero_cell=True), flatten=False, drop_level=None),
        dict(world=dict(taxonomy='d3_chain', encoding='csc', n_query=30), flatten=False, drop_level='subclass',
             max_gb=1.0e-7),
        dict(world=dict(taxonomy='d1_four', encoding='dense', query_normalization='log2CPM'), flatten=False),
        dict(world=dict(taxonomy='d3_mid_single', encoding='csr'), flatten=True),
        dict(world=dict(taxonomy='d2_single_child', encoding='csc', query_normalization='log2CPM', n_query=36),
             flatten=False, max_gb=1.0e-8),
    ]
    out = []
    for i, p in enumerate(plan):
        t = dict(p, seed=int(seed) + i, reps=2 if quick else 6, no_tmp_dir=(i % 2 == 0))
        if quick:
            t['chunking'] = [(1, 1), (3, 3), (23, 2)] if i % 2 == 0 else [(18, 1), (5, 2), (2, 3)]
        out.append(t)
    return out


def collect(rows_by_clause, results, harness_row):
    for status, val in results:
        if status != 'ok':
            fx.add_error(harness_row, val)
            continue
        for rec in val:
            if rec.get('status') == 'harness-error' and 'clause' not in rec:
                fx.add_error(harness_row, rec.get('error'))
                continue
            row = rows_by_clause[rec['clause']]
            row['cases'] += 1
            if rec['status'] == 'harness-error':
                fx.add_error(row, rec['observed'])
                continue
            row['accepted'] += 1
            fx.note_case(row, rec['args'])
            if rec['status'] == 'raised':
                fx.add_failure(row, rec['clause'], 'raises', rec['args'], rec['observed'])
            elif rec['observed']:
                fx.add_failure(row, rec['clause'], rec.get('kind', 'ensures'), rec['args'], rec['observed'])


def run(tier='quick', seed=0, jobs=1):
    seed = int(seed or 0)
    bound = ("6 worlds (depth 1-3 incl. single-child parents, flatten / drop_level, dense/csr/csc, raw and log2CPM input, "
             "one all-zero cell), 18 query cells x <= 27 genes, bootstrap factor 1 (3 iterations, 3 runners-up); "
             "random row permutations, sub-/super-sets, duplicates; chunk sizes {1,2,3,5,n,n+5} x workers {1,2,3}")
    row = fx.new_row(ENTRY, 'seeded-random', bound, [CL_PERM, CL_DEL, CL_DUP, CL_ADD, CL_CHUNK, CL_ORDER])
    try:
        rows = {c: row for c in (CL_PERM, CL_DEL, CL_DUP, CL_ADD, CL_CHUNK)}
        collect(rows, fx.parallel_map(_task, tasks_for(tier, seed), jobs), row)
    except BaseException:   # noqa
        fx.add_error(row, traceback.format_exc()[-2000:])
    return [fx.finish_row(row)]
