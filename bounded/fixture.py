"""Tiny-pipeline builder shared by the property-level bounded stand-ins (bounded/cNN.py).

Everything here drives the REAL package stages (precompute -> reference markers -> query markers
-> from_specified_markers.run_mapping) on very small generated inputs.  Nothing in this file is a
model of the package: the only "own" code is data generation, file writing and result reading.

Public surface
--------------
SHAPES / taxonomy_spec(name) / random_taxonomy_spec(rng, depth, ...)   taxonomy shapes
build_world(workdir, seed, ...)            -> World (dict with attribute access)
reduced_world(world, drop_level=.. | flatten=True)  same cells, taxonomy without a level (C17)
write_query(world, X, cell_ids, gene_names, encoding=..)  write another query h5ad into the world
to_log2cpm(X)                              reference implementation of log2(CPM+1) (oracle side)
mapping_config(world, **overrides)         -> config dict for cli.from_specified_markers.run_mapping
run_mapping_world(world, config)           -> (json_blob, paths)
WorldCache(workdir)                        cache of worlds per (shape, seed, ...)
scratch() / quiet() / parallel_map()       harness helpers
new_row() / add_failure() / finish_row()   evidence-row helpers (interface of bounded.<cNN>.run)
records_equal() / record_diff()            float-tolerant comparison of result records
"""
import contextlib
import copy
import gc
import itertools
import json
import os
import pathlib
import shutil
import tempfile
import time
import traceback
import warnings

import numpy as np


# --------------------------------------------------------------------------------------------
# harness helpers
# --------------------------------------------------------------------------------------------

@contextlib.contextmanager
def scratch(prefix='verif_'):
    """scratch directory under /tmp, removed afterwards whatever happens"""
    d = tempfile.mkdtemp(prefix=prefix, dir='/tmp')
    try:
        yield pathlib.Path(d)
    finally:
        shutil.rmtree(d, ignore_errors=True)


@contextlib.contextmanager
def quiet(stderr_to=None):
    """silence stdout of this process AND of forked children (the package prints progress lines);
    python warnings are silenced too.  stderr is left alone unless `stderr_to` (a file path) is
    given, in which case fd 2 of this process and its children is appended to that file (worker
    tracebacks of the package end up there)."""
    import sys
    try:
        sys.stdout.flush()
        sys.stderr.flush()
    except Exception:   # noqa
        pass
    saved = None
    devnull = None
    saved2 = None
    errfd = None
    try:
        saved = os.dup(1)
        devnull = os.open(os.devnull, os.O_WRONLY)
        os.dup2(devnull, 1)
    except OSError:
        saved = None
    if stderr_to is not None:
        try:
            saved2 = os.dup(2)
            errfd = os.open(str(stderr_to), os.O_WRONLY | os.O_CREAT | os.O_APPEND, 0o644)
            os.dup2(errfd, 2)
        except OSError:
            saved2 = None
    try:
        with warnings.catch_warnings():
            warnings.simplefilter('ignore')
            yield
    finally:
        try:
            sys.stdout.flush()
        except Exception:   # noqa
            pass
        if saved is not None:
            os.dup2(saved, 1)
            os.close(saved)
        if devnull is not None:
            os.close(devnull)
        if saved2 is not None:
            try:
                sys.stderr.flush()
            except Exception:   # noqa
                pass
            os.dup2(saved2, 2)
            os.close(saved2)
        if errfd is not None:
            os.close(errfd)


def _pm_call(payload):
    fn, item = payload
    try:
        return ('ok', fn(item))
    except BaseException as e:   # noqa  (harness problem inside a worker)
        return ('harness-error', f"{type(e).__name__}: {e}\n{traceback.format_exc()[-1500:]}")


def parallel_map(fn, items, jobs=1):
    """map `fn` (a module-level function) over `items`; results in order.
    Each result is ('ok', value) or ('harness-error', text).  Worker processes are non-daemonic
    (concurrent.futures) because run_mapping starts its own child processes."""
    items = list(items)
    jobs = max(1, min(int(jobs or 1), 4, len(items) or 1))
    if jobs == 1:
        return [_pm_call((fn, it)) for it in items]
    try:
        import concurrent.futures as cf
        import multiprocessing as mp
        ctx = mp.get_context('fork')
        with cf.ProcessPoolExecutor(max_workers=jobs, mp_context=ctx) as ex:
            return list(ex.map(_pm_call, [(fn, it) for it in items], chunksize=1))
    except Exception:   # noqa   pool could not be used: fall back to sequential
        return [_pm_call((fn, it)) for it in items]


def new_row(function, form, bound, clauses):
    return dict(function=function, form=form, bound=bound, cases=0, accepted=0, distinct=0,
                sample=None, clauses=list(clauses), failures=[], error=None, _seen=set(),
                _suppressed=0)


MAX_FAILURES_PER_ROW = 8


def add_failure(row, clause, kind, args, observed):
    """record one genuine contract violation (deduplicated per clause+args, capped)"""
    key = (clause, repr(args)[:400])
    if key in row.setdefault('_fkeys', set()):
        return
    row['_fkeys'].add(key)
    if len(row['failures']) >= MAX_FAILURES_PER_ROW:
        row['_suppressed'] += 1
        return
    row['failures'].append(dict(clause=clause, kind=kind, args=_short(args, 1500),
                                observed=_short(observed, 1200)))


def add_error(row, text):
    if row['error'] is None:
        row['error'] = str(text)[:3000]
    else:
        row['_more_errors'] = row.get('_more_errors', 0) + 1


def note_case(row, key, sample=None):
    """count a distinct non-trivial accepted case"""
    k = _short(key, 500)
    if k not in row['_seen']:
        row['_seen'].add(k)
    if row['sample'] is None:
        row['sample'] = _short(sample if sample is not None else key, 400)


def finish_row(row):
    row['distinct'] = len(row.pop('_seen', ()))
    sup = row.pop('_suppressed', 0)
    row.pop('_fkeys', None)
    more = row.pop('_more_errors', 0)
    if sup:
        row['failures_suppressed'] = sup
    if more and row['error']:
        row['error'] += f"\n(+{more} further harness errors)"
    return row


def _short(x, n):
    s = x if isinstance(x, str) else repr(x)
    return s if len(s) <= n else s[:n] + '...'


# --------------------------------------------------------------------------------------------
# taxonomies
# --------------------------------------------------------------------------------------------
# A *spec* is the package's tree dict without the rows: {'hierarchy': [...], level: {node: [children]}}
# for every non-leaf level; the leaf level is derived.  Node names are deliberately not in sorted
# order of creation and levels have unrelated names.

_SPECS = {
    # depth 1
    'd1_two':        {'hierarchy': ['cluster'], 'cluster': ['c1', 'c0']},
    'd1_four':       {'hierarchy': ['cluster'], 'cluster': ['c3', 'c1', 'c0', 'c2']},
    # depth 2
    'd2_bal':        {'hierarchy': ['class', 'cluster'],
                      'class': {'B': ['c2', 'c3', 'c4'], 'A': ['c0', 'c1']}},
    'd2_single_child': {'hierarchy': ['class', 'cluster'],
                        'class': {'A': ['c0', 'c1', 'c2'], 'B': ['c3']}},
    'd2_top_single': {'hierarchy': ['class', 'cluster'],          # D-1 witness shape
                      'class': {'A': ['c0', 'c1', 'c2']}},
    # depth 3
    'd3_bal':        {'hierarchy': ['class', 'subclass', 'cluster'],
                      'class': {'A': ['s0', 's1'], 'B': ['s2', 's3']},
                      'subclass': {'s0': ['c0', 'c1'], 's1': ['c2'], 's2': ['c3', 'c4'], 's3': ['c5']}},
    'd3_chain':      {'hierarchy': ['class', 'subclass', 'cluster'],   # single-child parents at both levels
                      'class': {'A': ['s0'], 'B': ['s1', 's2']},
                      'subclass': {'s0': ['c0', 'c1'], 's1': ['c2'], 's2': ['c3', 'c4']}},
    'd3_mid_single': {'hierarchy': ['class', 'subclass', 'cluster'],   # every class has one subclass
                      'class': {'A': ['s0'], 'B': ['s1']},
                      'subclass': {'s0': ['c0', 'c1', 'c2'], 's1': ['c3', 'c4']}},
    'd3_top_single': {'hierarchy': ['class', 'subclass', 'cluster'],   # D-1 at depth 3
                      'class': {'A': ['s0', 's1']},
                      'subclass': {'s0': ['c0', 'c1'], 's1': ['c2', 'c3']}},
    # labels reused across levels (legal: names only have to be unique within a level): class 'A' has a
    # subclass 'A' and a subclass 'B' (while 'B' is also another class); subclass 'B' has the single
    # cluster 'B'; subclass 'A' has a cluster 'A'
    'd3_reuse':      {'hierarchy': ['class', 'subclass', 'cluster'],
                      'class': {'A': ['B', 'A'], 'B': ['C']},
                      'subclass': {'A': ['A', 'c1'], 'B': ['B'], 'C': ['c3', 'C']}},
    # node names containing '/' (e.g. the cortical layer types 'L2/3 IT'): marker groups are addressed by
    # 'level/node' paths, the node part may itself contain separators
    'd3_slash':      {'hierarchy': ['class', 'subclass', 'cluster'],
                      'class': {'IT/ET': ['L2/3 IT', 'L5 ET'], 'Inh': ['Sst/Chodl']},
                      'subclass': {'L2/3 IT': ['c0', 'c1/a'], 'L5 ET': ['c2'], 'Sst/Chodl': ['c3', 'c4']}},
    # labels of different lengths inside a level (s1 / s10): label arrays must not be fixed-width
    'd3_len':        {'hierarchy': ['class', 'subclass', 'cluster'],
                      'class': {'c1': ['s1', 's2'], 'c2': ['s10', 's11']},
                      'subclass': {'s1': ['k1', 'k2'], 's2': ['k3'], 's10': ['k10', 'k11_long_label'], 's11': ['k12']}},
    # a level whose name is a prefix of the next level's name
    'd3_prefix':     {'hierarchy': ['type', 'type_fine', 'cluster'],
                      'type': {'T1': ['f2'], 'T0': ['f0', 'f1']},
                      'type_fine': {'f0': ['c0', 'c1'], 'f1': ['c2', 'c3'], 'f2': ['c4']}},
    'd2_reuse':      {'hierarchy': ['class', 'cluster'],
                      'class': {'B': ['A', 'c2'], 'A': ['B', 'c0', 'c1']}},
}
SHAPES = list(_SPECS)
SHAPES_TOP_SINGLE = ['d2_top_single', 'd3_top_single']
SHAPES_OK = [s for s in SHAPES if s not in SHAPES_TOP_SINGLE]


def taxonomy_spec(name):
    return normalise_spec(_SPECS[name])


def normalise_spec(spec):
    """fill in the leaf level as a sorted list of leaf names"""
    spec = copy.deepcopy(spec)
    h = spec['hierarchy']
    if len(h) == 1:
        leaves = list(spec[h[0]]) if not isinstance(spec[h[0]], dict) else list(spec[h[0]].keys())
    else:
        leaves = []
        for p in spec[h[-2]]:
            leaves += list(spec[h[-2]][p])
    spec[h[-1]] = list(leaves)
    return spec


def random_taxonomy_spec(rng, depth, max_leaves=6, allow_top_single=False, reuse_labels=None):
    """random valid tree: `depth` levels, <= max_leaves leaves, single-child parents likely;
    reuse_labels (default: one tree in three): all levels draw their node names from one pool, so the
    same label names unrelated nodes at different levels"""
    if reuse_labels is None:
        reuse_labels = bool(rng.integers(0, 3) == 0)
    names = ['class', 'subclass', 'supertype', 'cluster']
    hierarchy = (names[:depth - 1] + ['cluster']) if depth > 1 else ['cluster']
    n_leaves = int(rng.integers(2, max_leaves + 1))
    # number of nodes per level: non-decreasing towards the leaves
    counts = [n_leaves]
    for _ in range(depth - 1):
        lo = 1 if allow_top_single else min(2, counts[0])
        counts.insert(0, int(rng.integers(lo, counts[0] + 1)))
    if not allow_top_single and counts[0] < 2:
        counts[0] = min(2, counts[1]) if depth > 1 else counts[0]
    spec = {'hierarchy': hierarchy}
    prefixes = ['K', 's', 't', 'c']
    level_nodes = []
    for i, lv in enumerate(hierarchy):
        pre = 'c' if lv == 'cluster' else prefixes[i]
        if reuse_labels:
            pool = [f'n{j}' for j in range(max(counts))]
            rng.shuffle(pool)
            level_nodes.append(pool[:counts[i]])
        else:
            level_nodes.append([f'{pre}{j}' for j in range(counts[i])])
    for i in range(depth - 1):
        parents, children = level_nodes[i], list(level_nodes[i + 1])
        rng.shuffle(children)
        # every parent gets >= 1 child; the rest are distributed at random
        alloc = {p: [children[k]] for k, p in enumerate(parents)}
        for ch in children[len(parents):]:
            alloc[parents[int(rng.integers(0, len(parents)))]].append(ch)
        spec[hierarchy[i]] = alloc
    return normalise_spec({**spec, hierarchy[-1]: level_nodes[-1]} if depth == 1 else spec)


def spec_without_level(spec, level):
    """the spec of the same leaves for a taxonomy that never had `level` (not the leaf level)"""
    spec = normalise_spec(spec)
    h = spec['hierarchy']
    assert level in h and level != h[-1]
    i = h.index(level)
    out = {'hierarchy': [x for x in h if x != level]}
    for j, lv in enumerate(h[:-1]):
        if lv == level:
            continue
        if j == i - 1:
            # children of lv become the grandchildren
            out[lv] = {p: [g for ch in spec[lv][p] for g in spec[level][ch]] for p in spec[lv]}
        else:
            out[lv] = copy.deepcopy(spec[lv])
    return normalise_spec({**out, h[-1]: spec[h[-1]]} if len(out['hierarchy']) == 1 else out)


def spec_flat(spec):
    spec = normalise_spec(spec)
    h = spec['hierarchy']
    return {'hierarchy': [h[-1]], h[-1]: list(spec[h[-1]])}


def tree_dict_from_spec(spec, rows_of_leaf):
    spec = normalise_spec(spec)
    h = spec['hierarchy']
    tree = {'hierarchy': list(h)}
    for lv in h[:-1]:
        tree[lv] = {p: list(ch) for p, ch in spec[lv].items()}
    tree[h[-1]] = {leaf: [int(r) for r in rows_of_leaf[leaf]] for leaf in spec[h[-1]]}
    return tree


def child_to_parent(tree):
    """{child_level: {child: parent}} of a package tree dict (own tiny re-derivation for oracles)"""
    h = tree['hierarchy']
    out = {}
    for pl, cl in zip(h[:-1], h[1:]):
        out[cl] = {}
        for p, chs in tree[pl].items():
            for c in chs:
                out[cl][c] = p
    return out


def children_of(tree, level, node):
    h = tree['hierarchy']
    if level is None:
        return list(tree[h[0]].keys())
    return list(tree[level][node])


def leaves_under(tree, level, node):
    h = tree['hierarchy']
    if level is None:
        return sorted(tree[h[-1]].keys())
    if level == h[-1]:
        return [node]
    nxt = h[h.index(level) + 1]
    out = []
    for c in tree[level][node]:
        out += leaves_under(tree, nxt, c)
    return sorted(out)


# --------------------------------------------------------------------------------------------
# world
# --------------------------------------------------------------------------------------------

class World(dict):
    __getattr__ = dict.__getitem__

    def __setattr__(self, k, v):
        self[k] = v


def to_log2cpm(X):
    """oracle-side log2(1 + 1e6 * x / rowsum) (row sum 0 -> denominator 1)"""
    X = np.asarray(X, dtype=float)
    s = X.sum(axis=1, keepdims=True)
    s = np.where(s > 0, s, 1.0)
    return np.log2(1.0 + 1.0e6 * X / s)


def _write_h5ad(path, X, obs_names, var_names, encoding='dense', obs_cols=None, uns=None):
    import anndata
    import pandas as pd
    import scipy.sparse as sp
    X = np.asarray(X)
    if encoding == 'dense':
        Xw = X
    elif encoding == 'csr':
        Xw = sp.csr_matrix(X)
    elif encoding == 'csc':
        Xw = sp.csc_matrix(X)
    else:
        raise ValueError(encoding)
    obs = pd.DataFrame(obs_cols or {}, index=pd.Index([str(x) for x in obs_names]))
    var = pd.DataFrame(index=pd.Index([str(x) for x in var_names]))
    a = anndata.AnnData(X=Xw, obs=obs, var=var, uns=uns or {})
    with warnings.catch_warnings():
        warnings.simplefilter('ignore')
        a.write_h5ad(path)
    return str(path)


def _gene_plan(spec, n_genes, rng):
    """assign a role to every reference gene: signature of one leaf, signature of one internal node,
    'graded' (on everywhere, leaf-specific level) or 'house' (identical everywhere)"""
    spec = normalise_spec(spec)
    h = spec['hierarchy']
    leaves = sorted(spec[h[-1]])
    internal = []
    for lv in h[:-1]:
        for p in sorted(spec[lv]):
            internal.append((lv, p))
    n_leaf_sig = max(2, min(3, (n_genes - len(internal) - 2) // max(1, len(leaves))))
    roles = []
    for leaf in leaves:
        roles += [('leaf', leaf)] * n_leaf_sig
    for node in internal:
        roles.append(('node', node))
    k = 0
    while len(roles) < n_genes:
        roles.append(('graded', None) if k % 2 == 0 else ('house', None))
        k += 1
    roles = roles[:n_genes]
    order = rng.permutation(len(roles))
    return [roles[i] for i in order]


def _leaf_means(spec, roles, rng):
    """mean raw count of every gene in every leaf (dict leaf -> vector)"""
    spec = normalise_spec(spec)
    h = spec['hierarchy']
    leaves = sorted(spec[h[-1]])
    tree = tree_dict_from_spec(spec, {lf: [] for lf in leaves})
    means = {lf: np.zeros(len(roles)) for lf in leaves}
    for g, (kind, what) in enumerate(roles):
        if kind == 'leaf':
            means[what][g] = float(rng.integers(30, 200))
        elif kind == 'node':
            amp = float(rng.integers(30, 200))
            for lf in leaves_under(tree, what[0], what[1]):
                means[lf][g] = amp * float(rng.uniform(0.7, 1.3))
        elif kind == 'graded':
            for lf in leaves:
                means[lf][g] = float(rng.integers(5, 120))
        else:
            amp = float(rng.integers(10, 80))
            for lf in leaves:
                means[lf][g] = amp
    return means


def _sample_cells(mean_vec, n, rng, noise=0.15):
    """integer-valued counts around mean_vec; 'off' genes are 0 with a rare stray count"""
    mean_vec = np.asarray(mean_vec, dtype=float)
    depth = rng.uniform(0.6, 1.6, size=(n, 1))
    jitter = rng.normal(1.0, noise, size=(n, len(mean_vec))).clip(0.3, 2.0)
    X = np.rint(mean_vec[None, :] * depth * jitter)
    stray = (rng.random(X.shape) < 0.04) & (mean_vec[None, :] == 0)
    X = np.where(stray, 1.0, X)
    return X.astype(float)


def build_world(workdir, seed, n_genes=24, taxonomy='d2_bal', n_cells_per_leaf=6,
                encoding='dense', n_query=18, query_normalization='raw',
                permute_query_genes=True, n_extra_query_genes=3, n_per_utility=3,
                ref_encoding='dense', zero_cell=False, n_processors=2, name=None,
                query_kinds=('pure', 'mix', 'mix', 'noise'), n_unlabelled=0, n_ref_files=1,
                cells_per_leaf=None, name_mapper=None):
    """Build a tiny reference + query world by running the package's own stages.

    taxonomy: a name from SHAPES or a spec dict ({'hierarchy': [...], level: {parent: [children]}}).
    encoding: storage of the QUERY X ('dense' | 'csr' | 'csc'); ref_encoding the same for the reference.
    query_normalization: 'raw' (counts written) or 'log2CPM' (log2(CPM+1) of the same counts written).
    Returns a World (dict with attribute access); see keys at the end of this function.
    Raises whatever the package stages raise (callers decide whether that is a finding).
    """
    from cell_type_mapper.taxonomy.taxonomy_tree import TaxonomyTree
    from cell_type_mapper.diff_exp.precompute_from_anndata import precompute_summary_stats_from_h5ad
    from cell_type_mapper.diff_exp.markers import find_markers_for_all_taxonomy_pairs
    from cell_type_mapper.type_assignment.marker_cache_v2 import create_marker_gene_lookup_from_ref_list

    assert n_genes <= 400 and n_query <= 40
    rng = np.random.default_rng([int(seed), 7919])
    spec = normalise_spec(taxonomy_spec(taxonomy) if isinstance(taxonomy, str) else taxonomy)
    h = spec['hierarchy']
    leaves = sorted(spec[h[-1]])
    assert 2 <= len(leaves) <= 6
    workdir = pathlib.Path(workdir)
    wdir = pathlib.Path(tempfile.mkdtemp(prefix=(name or 'world') + '_', dir=workdir))
    tmp = wdir / 'tmp'
    tmp.mkdir()

    # ---- reference ----
    ref_genes = [f'g{ii:02d}' for ii in range(n_genes)]
    roles = _gene_plan(spec, n_genes, rng)
    means = _leaf_means(spec, roles, rng)
    # reference rows: leaves interleaved (rows of a leaf are not contiguous)
    row_leaf = []
    # cells_per_leaf: optional {leaf: number of reference cells} (boundary cluster sizes); others n_cells_per_leaf
    per_leaf = {lf: int((cells_per_leaf or {}).get(lf, n_cells_per_leaf)) for lf in leaves}
    for k in range(max(per_leaf.values())):
        for lf in leaves:
            if k < per_leaf[lf]:
                row_leaf.append(lf)
    # reference cells that the taxonomy assigns to no leaf (they must contribute nothing)
    row_leaf += [None] * int(n_unlabelled)
    perm = rng.permutation(len(row_leaf))
    row_leaf = [row_leaf[i] for i in perm]
    if n_unlabelled and row_leaf[0] is not None:
        # make sure an unlabelled cell sits ahead of labelled ones inside the first chunk
        j = row_leaf.index(None)
        row_leaf[0], row_leaf[j] = row_leaf[j], row_leaf[0]
    ref_X = np.zeros((len(row_leaf), n_genes))
    rows_of_leaf = {lf: [] for lf in leaves}
    for r, lf in enumerate(row_leaf):
        if lf is not None:
            rows_of_leaf[lf].append(r)
    for lf in leaves:
        ref_X[rows_of_leaf[lf], :] = _sample_cells(means[lf], len(rows_of_leaf[lf]), rng)
    for r, lf in enumerate(row_leaf):
        if lf is None:
            ref_X[r, :] = rng.integers(50, 400, size=n_genes)
    tree = tree_dict_from_spec(spec, rows_of_leaf)
    if name_mapper == 'partial':
        # readable names for the top level only and aliases for some leaves only: the other levels and
        # nodes fall back to their labels (a partially filled name table is legal)
        nm = {h[0]: {n: {'name': f'{n}, "{h[0]}" (readable)'} for n in tree[h[0]]}}
        if len(h) > 1:
            nm[h[-1]] = {lf: ({'alias': str(100 + i)} if i % 2 else {'name': f'name of {lf}'})
                         for i, lf in enumerate(leaves) if i % 3 != 2}
        tree['name_mapper'] = nm
    c2p = child_to_parent(tree)
    obs_cols = {}
    for lv in h:
        col = []
        for lf in row_leaf:
            node = lf
            if lf is None:
                col.append('unlabelled')
                continue
            for cl in reversed(h[h.index(lv) + 1:]):
                node = c2p[cl][node]
            col.append(node)
        obs_cols[lv] = col
    ref_ids = [f'ref_{ii:03d}' for ii in range(len(row_leaf))]
    reference_path = _write_h5ad(wdir / 'reference.h5ad', ref_X, ref_ids, ref_genes,
                                 encoding=ref_encoding, obs_cols=obs_cols)

    world = World(workdir=str(wdir), seed=int(seed), spec=spec, tree=tree, hierarchy=list(h),
                  leaves=leaves, n_genes=n_genes, reference_path=reference_path,
                  reference_gene_names=ref_genes, reference_X=ref_X, reference_row_leaf=row_leaf,
                  gene_roles=roles, leaf_count_means=means, shape=taxonomy if isinstance(taxonomy, str) else 'spec',
                  n_per_utility=n_per_utility, stage_log=[])

    with quiet():
        # ---- stage 1: precomputed statistics (the package's own stage) ----
        precomputed_path = str(wdir / 'precomputed_stats.h5')
        if int(n_ref_files) <= 1:
            precompute_summary_stats_from_h5ad(
                data_path=reference_path, column_hierarchy=None,
                taxonomy_tree=TaxonomyTree(data=tree), output_path=precomputed_path,
                rows_at_a_time=max(2, len(row_leaf) // 3), normalization='raw', tmp_dir=str(tmp),
                n_processors=n_processors)
        else:
            # the same reference cells spread over several h5ad files (the first one the longest), cells
            # named by the taxonomy: the package's list-of-files entry point
            from cell_type_mapper.diff_exp.precompute_from_anndata import \
                precompute_summary_stats_from_h5ad_list_and_tree
            k = int(n_ref_files)
            n = len(row_leaf)
            first = max(n - (k - 1) * max(1, n // (k + 1)), 1)
            cuts = [0, first]
            while len(cuts) < k:
                cuts.append(min(n, cuts[-1] + max(1, n // (k + 1))))
            cuts.append(n)
            paths = []
            for a, b in zip(cuts[:-1], cuts[1:]):
                if b > a:
                    paths.append(_write_h5ad(wdir / f'reference_part{len(paths)}.h5ad', ref_X[a:b], ref_ids[a:b],
                                             ref_genes, encoding=ref_encoding,
                                             obs_cols={c: v[a:b] for c, v in obs_cols.items()}))
            named = tree_dict_from_spec(spec, {lf: [] for lf in leaves})
            named[h[-1]] = {lf: [ref_ids[r] for r in rows_of_leaf[lf]] for lf in leaves}
            precompute_summary_stats_from_h5ad_list_and_tree(
                data_path_list=paths, taxonomy_tree=TaxonomyTree(data=named), output_path=precomputed_path,
                rows_at_a_time=max(2, len(row_leaf) // 5), normalization='raw', tmp_dir=str(tmp),
                n_processors=n_processors)
            world.reference_parts = paths
        world.precompute_kwargs = dict(rows_at_a_time=max(2, len(row_leaf) // 3), n_processors=n_processors)
        world.precomputed_path = precomputed_path
        world.stage_log.append('precompute ok')

        # ---- stage 2: reference markers ----
        reference_marker_path = str(wdir / 'reference_markers.h5')
        find_markers_for_all_taxonomy_pairs(
            precomputed_stats_path=precomputed_path, taxonomy_tree=TaxonomyTree(data=tree),
            output_path=reference_marker_path, tmp_dir=str(tmp), n_processors=n_processors,
            max_gb=1, n_valid=min(10, n_genes))      # n_valid <= n_genes: see D-6
        import h5py
        with h5py.File(reference_marker_path, 'a') as dst:   # what cli/reference_markers.py adds
            dst.create_dataset('metadata', data=json.dumps(
                {'precomputed_path': precomputed_path}).encode('utf-8'))
        world.reference_marker_path = reference_marker_path
        world.stage_log.append('reference markers ok')

    # ---- query ----
    q = _make_query(world, rng, n_query, query_kinds, zero_cell)
    q_genes = list(ref_genes)
    extra = [f'qx{ii}' for ii in range(n_extra_query_genes)]
    Xq = q['X']
    if extra:
        Xe = np.rint(rng.uniform(0, 60, size=(Xq.shape[0], len(extra))))
        Xq = np.hstack([Xq, Xe])
        q_genes += extra
        if zero_cell and Xq.shape[0] >= 2:
            # the zero cell stores nothing at all (an empty row of a sparse query matrix)
            Xq[1, :] = 0.0
    if permute_query_genes:
        gp = rng.permutation(len(q_genes))
        Xq = Xq[:, gp]
        q_genes = [q_genes[i] for i in gp]
    world.query_X = Xq                       # raw counts, query gene order
    world.query_gene_names = q_genes
    world.query_cell_ids = q['ids']
    world.query_truth = q['truth']
    world.query_normalization = query_normalization
    world.encoding = encoding
    Xw = Xq if query_normalization == 'raw' else to_log2cpm(Xq)
    world.query_path = _write_h5ad(wdir / 'query.h5ad', Xw, q['ids'], q_genes, encoding=encoding)

    with quiet():
        # ---- stage 3: query markers (what cli/query_markers.py writes) ----
        lookup = create_marker_gene_lookup_from_ref_list(
            reference_marker_path_list=[reference_marker_path], query_gene_names=q_genes,
            n_per_utility=n_per_utility, n_per_utility_override=None, n_processors=n_processors,
            behemoth_cutoff=5000000, tmp_dir=str(tmp), drop_level=None)
    lookup = json.loads(json.dumps(lookup, default=str))
    lookup['metadata'] = {'config': {'n_per_utility': n_per_utility}, 'written_by': 'bounded.fixture'}
    marker_lookup_path = str(wdir / 'query_markers.json')
    with open(marker_lookup_path, 'w') as f:
        json.dump(lookup, f, indent=1)
    world.marker_lookup_path = marker_lookup_path
    world.marker_lookup = {k: v for k, v in lookup.items() if k not in ('metadata', 'log')}
    world.stage_log.append('query markers ok')
    world._run_counter = itertools.count()
    return world


def _make_query(world, rng, n_query, kinds, zero_cell):
    leaves = world.leaves
    means = world.leaf_count_means
    n_genes = world.n_genes
    rows, truth = [], []
    for i in range(n_query):
        kind = kinds[i % len(kinds)]
        if kind == 'pure':
            lf = leaves[(i // len(kinds)) % len(leaves)]
            rows.append(_sample_cells(means[lf], 1, rng)[0])
            truth.append(('pure', lf))
        elif kind == 'mix':
            a, b = rng.choice(len(leaves), 2, replace=False)
            w = rng.uniform(0.35, 0.65)
            m = w * means[leaves[a]] + (1 - w) * means[leaves[b]]
            rows.append(_sample_cells(m, 1, rng, noise=0.35)[0])
            truth.append(('mix', (leaves[a], leaves[b])))
        else:
            rows.append(np.rint(rng.uniform(0, 100, n_genes) * (rng.random(n_genes) < 0.6)))
            truth.append(('noise', None))
    if zero_cell and n_query >= 2:
        rows[1] = np.zeros(n_genes)
        truth[1] = ('zero', None)
    X = np.array(rows, dtype=float)
    # make sure no non-zero cell is all zero by accident
    for i in range(X.shape[0]):
        if X[i].sum() == 0 and truth[i][0] != 'zero':
            X[i, int(rng.integers(0, n_genes))] = 5.0
    # ids: unique strings whose lexical order differs from file order
    tags = rng.permutation(n_query)
    ids = [f'cell_{int(t):03d}_{i % 7}' for i, t in enumerate(tags)]
    return dict(X=X, ids=ids, truth=truth)


def write_query(world, X, cell_ids, gene_names, encoding='dense', name=None, reuse_path=False):
    """write another query file into the world's directory; returns its path.  reuse_path: overwrite one
    fixed path (a history: what was read from that path earlier in this process must not matter)"""
    if reuse_path:
        path = pathlib.Path(world.workdir) / f"{name or 'query'}_reused.h5ad"
        if path.exists():
            path.unlink()
        return _write_h5ad(path, X, cell_ids, gene_names, encoding=encoding)
    n = next(world._run_counter)
    path = pathlib.Path(world.workdir) / f"{name or 'query'}_{n:04d}.h5ad"
    return _write_h5ad(path, X, cell_ids, gene_names, encoding=encoding)


def reduced_world(world, drop_level=None, flatten=False, union_markers=None):
    """Same reference cells and the same query; the reference taxonomy never had `drop_level`
    (or has only the leaf level when flatten=True).  Statistics are recomputed by the package's
    precompute stage from the same reference h5ad with the reduced tree.  The marker table is the
    SAME table as the parent world (C17 quantifies over marker tables; groups of removed parents are
    simply never consulted), except for flatten where the property says: 'None' = union of all lists.
    """
    from cell_type_mapper.taxonomy.taxonomy_tree import TaxonomyTree
    from cell_type_mapper.diff_exp.precompute_from_anndata import precompute_summary_stats_from_h5ad
    assert (drop_level is None) != (not flatten)
    spec = spec_flat(world.spec) if flatten else spec_without_level(world.spec, drop_level)
    leaf_level = world.hierarchy[-1]
    rows_of_leaf = {lf: world.tree[leaf_level][lf] for lf in world.leaves}
    tree = tree_dict_from_spec(spec, rows_of_leaf)
    wdir = pathlib.Path(tempfile.mkdtemp(prefix='reduced_', dir=world.workdir))
    (wdir / 'tmp').mkdir()
    new = World(copy.copy(dict(world)))
    new.workdir = str(wdir)
    new.spec = normalise_spec(spec)
    new.tree = tree
    new.hierarchy = list(spec['hierarchy'])
    new._run_counter = itertools.count()
    with quiet():
        new.precomputed_path = str(wdir / 'precomputed_stats.h5')
        precompute_summary_stats_from_h5ad(
            data_path=world.reference_path, column_hierarchy=None,
            taxonomy_tree=TaxonomyTree(data=tree), output_path=new.precomputed_path,
            normalization='raw', tmp_dir=str(wdir / 'tmp'),
            **world.get('precompute_kwargs', dict(rows_at_a_time=7, n_processors=1)))
    if flatten:
        union = set()
        for k, v in world.marker_lookup.items():
            union |= set(v)
        lookup = {'None': sorted(union)}
        new.marker_lookup = lookup
        new.marker_lookup_path = str(wdir / 'query_markers.json')
        with open(new.marker_lookup_path, 'w') as f:
            json.dump(lookup, f)
    return new


# --------------------------------------------------------------------------------------------
# mapping
# --------------------------------------------------------------------------------------------

_TA_KEYS = ('n_processors', 'chunk_size', 'bootstrap_factor', 'bootstrap_iteration',
            'bootstrap_factor_lookup', 'rng_seed', 'n_runners_up', 'normalization', 'min_markers')


def mapping_config(world, **overrides):
    """Config dict accepted by cell_type_mapper.cli.from_specified_markers.run_mapping: every key of
    FromSpecifiedMarkersSchema with its default, then tiny-world values, then `overrides`.

    Flat override names: flatten, drop_level, cloud_safe, max_gb, map_to_ensembl, obsm_key,
    obsm_clobber, query_path, precomputed_path, marker_lookup_path, tmp_dir ('auto' | None | path),
    csv (bool), hdf5 (bool), log (bool), summary (bool), and the type_assignment keys
    n_processors, chunk_size, bootstrap_factor, bootstrap_iteration, bootstrap_factor_lookup,
    rng_seed, n_runners_up, normalization, min_markers.
    """
    n = next(world._run_counter)
    run_dir = pathlib.Path(tempfile.mkdtemp(prefix=f'run{n:04d}_', dir=world.workdir))
    o = dict(overrides)
    tmp_dir = o.pop('tmp_dir', 'auto')
    if tmp_dir == 'auto':
        tmp_dir = str(run_dir / 'scratch')
        os.makedirs(tmp_dir, exist_ok=True)
    ta = dict(n_processors=2, chunk_size=7, bootstrap_factor=0.6, bootstrap_iteration=20,
              bootstrap_factor_lookup=None, rng_seed=1000 + world.seed, n_runners_up=3,
              normalization=world.get('query_normalization', 'raw'), min_markers=1)
    for k in _TA_KEYS:
        if k in o:
            ta[k] = o.pop(k)
    if ta['bootstrap_factor_lookup'] is not None:
        ta['bootstrap_factor'] = None
        if isinstance(ta['bootstrap_factor_lookup'], dict):
            # the schema's form: a list of (level, factor) pairs
            ta['bootstrap_factor_lookup'] = [[k, v] for k, v in ta['bootstrap_factor_lookup'].items()]
    cfg = dict(
        query_path=o.pop('query_path', world.query_path),
        precomputed_stats={'path': o.pop('precomputed_path', world.precomputed_path)},
        query_markers={'serialized_lookup': o.pop('marker_lookup_path', world.marker_lookup_path)},
        type_assignment=ta,
        flatten=bool(o.pop('flatten', False)),
        drop_level=o.pop('drop_level', None),
        cloud_safe=bool(o.pop('cloud_safe', False)),
        max_gb=o.pop('max_gb', 1.0),
        map_to_ensembl=o.pop('map_to_ensembl', False),
        obsm_key=o.pop('obsm_key', None),
        obsm_clobber=o.pop('obsm_clobber', False),
        tmp_dir=tmp_dir,
        extended_result_dir=str(run_dir),
        extended_result_path=str(run_dir / 'result.json'),
        csv_result_path=str(run_dir / 'result.csv') if o.pop('csv', False) else None,
        hdf5_result_path=str(run_dir / 'result.h5') if o.pop('hdf5', False) else None,
        log_path=str(run_dir / 'log.txt') if o.pop('log', False) else None,
        summary_metadata_path=str(run_dir / 'summary.json') if o.pop('summary', False) else None,
    )
    if o:
        raise TypeError(f"unknown mapping_config overrides: {sorted(o)}")
    return cfg


def run_mapping_world(world, config):
    """call the real run_mapping; returns (json_blob, paths).  Exceptions of the package propagate
    (after the package has written its JSON, which is then available as exc.verif_blob)."""
    from cell_type_mapper.cli.from_specified_markers import run_mapping
    paths = dict(json=config['extended_result_path'], csv=config['csv_result_path'],
                 hdf5=config['hdf5_result_path'], log=config['log_path'],
                 summary=config['summary_metadata_path'], tmp_dir=config['tmp_dir'],
                 run_dir=config['extended_result_dir'])
    t0 = time.time()
    err_path = os.path.join(config['extended_result_dir'], 'stderr.txt')
    paths['stderr'] = err_path
    with quiet(stderr_to=err_path):
        try:
            run_mapping(config=copy.deepcopy(config), output_path=config['extended_result_path'],
                        log_path=config['log_path'], hdf5_output_path=config['hdf5_result_path'])
        except BaseException as e:   # noqa
            try:
                with open(config['extended_result_path']) as f:
                    e.verif_blob = json.load(f)
            except Exception:   # noqa
                e.verif_blob = None
            e.verif_stderr = worker_error_lines(err_path)
            e.verif_paths = paths
            try:
                # release the package's frame locals now (FileTracker.__del__ prints), while quiet
                traceback.clear_frames(e.__traceback__)
                gc.collect()
            except Exception:   # noqa
                pass
            raise
    with open(config['extended_result_path']) as f:
        blob = json.load(f)
    paths['wall_s'] = round(time.time() - t0, 3)
    return blob, paths


def worker_error_lines(err_path, n=6):
    """the distinct 'SomeError: text' lines (and the package frame above them) that worker
    processes wrote to stderr during a run"""
    try:
        with open(err_path, errors='replace') as f:
            lines = f.read().splitlines()
    except OSError:
        return []
    out = []
    last_pkg_frame = ''
    for ln in lines:
        st = ln.strip()
        if st.startswith('File "') and 'cell_type_mapper' in st:
            last_pkg_frame = st.split('cell_type_mapper/')[-1]
        elif ln and not ln.startswith(' ') and (': ' in ln or ln.endswith('Error')) and \
                ln.split(':')[0].replace('.', '').replace('_', '').isalnum() and \
                ln.split(':')[0][-5:] in ('Error', 'ption', 'rrupt', 'Exit'):
            item = f"{ln.strip()} [{last_pkg_frame}]"
            if item not in out:
                out.append(item)
    return out[:n]


def package_error_text(exc, n=900):
    """short description of an exception that escaped the package (for `observed`)"""
    tb = traceback.extract_tb(exc.__traceback__)
    where = ''
    for fr in reversed(tb):
        if 'cell_type_mapper' in fr.filename:
            where = f" at {os.path.basename(fr.filename)}:{fr.lineno} in {fr.name}"
            break
    extra = ''
    w = getattr(exc, 'verif_stderr', None)
    if w:
        extra = ' | worker stderr: ' + ' ; '.join(w)
    return _short(f"{type(exc).__name__}: {exc}{where}{extra}", n)


def write_marker_lookup(world, lookup, name='markers'):
    """write a marker table (dict 'None' / 'level/node' -> gene list) next to the world; returns path"""
    n = next(world._run_counter)
    path = os.path.join(world.workdir, f'{name}_{n:04d}.json')
    with open(path, 'w') as f:
        json.dump(lookup, f)
    return path


def escaped_from_package(exc):
    """True when the innermost frame of the traceback is package (or library) code rather than
    harness code of /verif/bounded"""
    tb = traceback.extract_tb(exc.__traceback__)
    if not tb:
        return False
    in_pkg = any('cell_type_mapper' in fr.filename for fr in tb)
    last = tb[-1].filename
    return in_pkg and ('/bounded/' not in last)


class WorldCache(object):
    """cache of worlds under one scratch directory, keyed by the build arguments"""

    def __init__(self, workdir):
        self.workdir = pathlib.Path(workdir)
        self._worlds = {}

    def get(self, seed, **kw):
        key = json.dumps([seed, kw], sort_keys=True, default=str)
        if key not in self._worlds:
            try:
                self._worlds[key] = ('ok', build_world(self.workdir, seed, **kw))
            except BaseException as e:   # noqa
                self._worlds[key] = ('raised', e)
        status, val = self._worlds[key]
        if status == 'raised':
            raise val
        return val


# --------------------------------------------------------------------------------------------
# result comparison helpers
# --------------------------------------------------------------------------------------------

def record_diff(a, b, tol=1e-6, ignore_keys=()):
    """first difference between two result records (dict level -> fields), floats to `tol`;
    None when equal"""
    def cmp(x, y, path):
        if isinstance(x, dict) and isinstance(y, dict):
            kx = set(x) - set(ignore_keys)
            ky = set(y) - set(ignore_keys)
            if kx != ky:
                return f"{path}: keys {sorted(kx)} != {sorted(ky)}"
            for k in sorted(kx):
                d = cmp(x[k], y[k], f"{path}.{k}")
                if d:
                    return d
            return None
        if isinstance(x, (list, tuple)) and isinstance(y, (list, tuple)):
            if len(x) != len(y):
                return f"{path}: length {len(x)} != {len(y)} ({x!r} vs {y!r})"
            for i, (p, q) in enumerate(zip(x, y)):
                d = cmp(p, q, f"{path}[{i}]")
                if d:
                    return d
            return None
        if isinstance(x, bool) or isinstance(y, bool) or isinstance(x, str) or isinstance(y, str) \
                or x is None or y is None:
            return None if x == y else f"{path}: {x!r} != {y!r}"
        if isinstance(x, (int, float)) and isinstance(y, (int, float)):
            if tol == 0:
                return None if x == y else f"{path}: {x!r} != {y!r}"
            return None if abs(x - y) <= tol else f"{path}: {x!r} != {y!r}"
        return None if x == y else f"{path}: {x!r} != {y!r}"
    return cmp(a, b, 'rec')


def records_equal(a, b, tol=1e-6, ignore_keys=()):
    return record_diff(a, b, tol, ignore_keys) is None


def by_cell_id(blob):
    return {r['cell_id']: r for r in blob['results']}


def world_summary(world):
    return dict(shape=world.get('shape'), hierarchy=world.hierarchy, seed=world.seed,
                n_genes=world.n_genes, n_query=len(world.query_cell_ids),
                spec={k: v for k, v in world.spec.items() if k != 'hierarchy'},
                encoding=world.get('encoding'), normalization=world.get('query_normalization'))
