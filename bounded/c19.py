"""C19 bounded stand-in: runs leave inputs untouched, scratch space empty, and do not interfere.

Every pipeline stage is run on a tiny world (bounded.fixture via bounded.c14.make_world) inside a
process of our own whose system temporary directory (TMPDIR / tempfile.tempdir) and working
directory are fresh, watched directories.  Observed per run: sha256 of every input file and
listings of the input, output, scratch, system-temp and working directories before and after.

Scenarios per stage
    clean        fresh output / scratch directories                         (reference result)
    stale        stale files planted in scratch and output directories under every name pattern
                 the stages use (result_buffer_*, results_buffer_*, cell_type_mapper_*, *.h5,
                 query_marker_*, file_tracker_*, anndata_iterator_*, precomputation_buffer_*,
                 find_markers_*, unthinned_*, columns_*, transposition*, transpose_*, ...)
    rerun        again into the directories of `clean` (success after success)
    concurrent   two processes at the same time, same scratch directory, different outputs
mapping only
    failing      missing statistics file / malformed marker file / marker file without usable genes
                 / injected worker failure (each with tmp_dir given and tmp_dir=None), then a
                 successful run in the same directories (success after failure)
    obsm         results stored in the query file (the only case where an input may change)
    csc          CSC query (the row iterator re-writes it under the scratch directory)

Failures are reported with the scenario written out; D-7 (result_buffer_* left behind by a failing
mapping) is expected here on the unrepaired tree.
"""
import json
import os
import shutil
import tempfile
import time
import traceback

import numpy as np

from bounded import fixture as fx
from bounded import c14 as m

STAGES = ['mapping', 'stats', 'markers', 'selection', 'pmask', 'pmarkers', 'transposition']
NPROC = {'stats': 3, 'markers': 2, 'pmask': 2, 'pmarkers': 2, 'selection': 2, 'transposition': 3,
         'mapping': 3}
EXPECTED = {'stats': {'precomputed_stats.h5'}, 'markers': {'reference_markers.h5'},
            'pmask': {'p_value_mask.h5'}, 'pmarkers': {'reference_markers_from_mask.h5'},
            'selection': {'query_markers.json'}, 'transposition': {'transposed.h5'},
            'mapping': {'result.json', 'result.csv', 'result.h5', 'log.txt'}}

CL_INPUT = "every input file is byte-identical (sha256) after the run (the query file may change only when obsm_key is requested)"
CL_ONLY = "files are created only at the requested output locations (input, output, system-temp and working directories otherwise unchanged)"
CL_SCRATCH = "the scratch directory given holds nothing new once the call has returned"
CL_SCRATCH_FAIL = "mapping: the scratch / output directories hold nothing new after a run that ended with an error"
CL_STALE = "the result does not depend on stale files in the scratch and output directories"
CL_RERUN = "a second run into the same directories gives the same result (success after success / after failure)"
CL_CONC = "two runs sharing the scratch directory at the same time give the result of a run alone"

STALE_SCRATCH = [
    'result_buffer_stale0/0_7_assignment.json', 'results_buffer_stale1/7_14_assignment.json',
    'result_buffer_stale0/results_buffer_inner/14_20_assignment.json',
    'cell_type_mapper_20200101000000_stale/query_marker_stale.h5',
    'cell_type_mapper_20200101000000_stale/file_tracker_stale/query_stale.h5ad',
    'query_marker_stale.h5', 'stale.h5', 'precomputation_buffer_stale.h5',
    'file_tracker_stale/precomputed_stats_stale.h5',
    'anndata_iterator_stale/query.h5ad_as_csr_stale.h5',
    'find_markers_stale/tmpstale/unthinned_stale.h5', 'find_markers_stale/tmpstale/columns_0_8_stale.h5',
    'columns_0_8_stale.h5', 'columns_8_16_stale.h5', 'transposed_stale.h5',
    'transpositionstale/transpose_0_10_stale.h5', 'transpose_0_10_stale.h5',
    'transposing_sparse_matrix_stale/src_stale.h5', 'transposing_sparse_matrix_stale/dst_stale.h5',
    'tmpstale0/precomputation_buffer_stale.h5', 'precomputation_data_buffer_stale/reference.h5ad_stale.h5ad',
    'markers_from_p_values_stale/reference_markers_stale.h5',
]
STALE_OUT = ['result_buffer_stale9/0_7_assignment.json', 'results_buffer_stale9/0_7_assignment.json',
             'stale_previous.h5', 'query_marker_stale.h5', 'cell_type_mapper_stale/x.h5']

BOGUS_ASSIGNMENT = json.dumps([{'cell_id': 'cell_000_0', 'cluster': {'assignment': 'BOGUS'}}])


def _plant(directory, names):
    planted = []
    for n in names:
        pth = os.path.join(directory, n)
        os.makedirs(os.path.dirname(pth), exist_ok=True)
        with open(pth, 'w') as f:
            if n.endswith('.json'):
                f.write(BOGUS_ASSIGNMENT)
            else:
                f.write('stale bytes, not HDF5\n')
        planted.append(n)
    return planted


def _hashes(directory):
    out = {}
    for n in m.tree_listing(directory):
        pth = os.path.join(directory, n)
        if os.path.isfile(pth):
            out[n] = m.sha256(pth)
    return out


def clone_inputs(world, dest):
    """every run gets its own copy of the input files (a stage that modifies an input is then
    caught in its own run only); the reference-marker copy points to the copied statistics file"""
    import h5py
    os.makedirs(dest)
    src = world.workdir
    for n in os.listdir(src):
        if os.path.isfile(os.path.join(src, n)):
            shutil.copy(os.path.join(src, n), os.path.join(dest, n))
    new = fx.World(dict(world))
    for k, v in list(new.items()):
        if k.endswith('_path') and isinstance(v, str) and os.path.dirname(v) == src:
            new[k] = os.path.join(dest, os.path.basename(v))
    new['workdir'] = dest
    with h5py.File(new['reference_marker_path'], 'a') as f:
        del f['metadata']
        f.create_dataset('metadata', data=json.dumps(
            {'precomputed_path': new['precomputed_path']}).encode('utf-8'))
    return new


def scenario(world, stage, out, scratch, watch, nproc=None, start_at=None, fault=None,
             cfg_over=None, settle=0.15):
    """one run of `stage` (inside an isolated process).  `watch` = directory under which the fresh
    system-temp and working directories of this run are made."""
    nproc = nproc or NPROC[stage]
    world = clone_inputs(world, os.path.join(watch, f'inputs_{os.getpid()}'))
    systmp = tempfile.mkdtemp(prefix='systmp_', dir=watch)
    cwd = tempfile.mkdtemp(prefix='cwd_', dir=watch)
    os.environ['TMPDIR'] = systmp
    tempfile.tempdir = systmp
    os.chdir(cwd)
    cfg = None
    if stage == 'mapping':
        kw = dict(cfg_over or {})
        patch = {k: kw.pop(k) for k in list(kw) if k.startswith('_')}
        cfg = m.mapping_cfg(world, out, scratch, nproc, **kw)
        if '_missing_stats' in patch:
            cfg['precomputed_stats']['path'] = os.path.join(world.workdir, 'no_such_stats.h5')
        if '_marker_path' in patch:
            cfg['query_markers']['serialized_lookup'] = patch['_marker_path']
        if patch.get('_no_tmp_dir'):
            cfg['tmp_dir'] = None
    indir = world.workdir
    before = dict(inputs=_hashes(indir), in_listing=m.tree_listing(indir),
                  out=m.tree_listing(out), scratch=m.tree_listing(scratch))
    if start_at:
        time.sleep(max(0.0, start_at - time.time()))
    plan = dict(sites=[], fault=None)
    if fault is not None:
        plan = m.fault_plan(stage, fault['k'], fault['mode'], fault['point'], 0,
                            os.path.join(watch, 'fault_fired'))
        if fault.get('schedule') == 'siblings-publish-at-cleanup':
            # see bounded.c14._PublishWhenCleanupStarts: the neighbours of the failing worker write
            # their chunk at the moment the parent starts to clean the buffer directory
            plan['siblings_publish_at_cleanup'] = (m.M + 'type_assignment.election', 'save_results',
                                                   (fault['k'] - 1, fault['k'] + 1))
    raised = None
    t0 = time.time()
    with m.injected(plan):
        try:
            with fx.quiet():
                if stage == 'mapping':
                    m.call_run_mapping(cfg)
                else:
                    m.STAGES[stage]['run'](world, out, scratch, nproc)
        except Exception as e:   # noqa
            raised = f'{type(e).__name__}: {str(e)[:300]}'
    wall = time.time() - t0
    import gc
    gc.collect()
    snap0 = dict(out=m.tree_listing(out), scratch=m.tree_listing(scratch),
                 systmp=m.tree_listing(systmp), cwd=m.tree_listing(cwd))
    time.sleep(settle)
    after = dict(inputs=_hashes(indir), in_listing=m.tree_listing(indir),
                 out=m.tree_listing(out), scratch=m.tree_listing(scratch),
                 systmp=m.tree_listing(systmp), cwd=m.tree_listing(cwd), at_return=snap0)
    return dict(stage=stage, raised=raised, before=before, after=after, wall=wall,
                fired=os.path.exists(os.path.join(watch, 'fault_fired')),
                t0=t0, t1=t0 + wall)


def _top(names):
    return sorted({n.split(os.sep)[0] for n in names})


def _pattern(names):
    """top-level names with the random part of mkstemp / mkdtemp names replaced by *"""
    import re
    return sorted({re.sub(r'[A-Za-z0-9_]{8}(?=(\.[A-Za-z0-9]+)?$)', '*', n) for n in _top(names)})


def _fail(row, clause, kind, replay, observed, names=()):
    """footprint failures are collected per (clause, kind, name pattern): one failure per class,
    with the first scenario as the replay and the others listed"""
    key = (clause, kind, tuple(_pattern(names)))
    c = row.setdefault('_classes', {}).setdefault(key, dict(replay=replay, observed=observed, others=[]))
    if c['replay'] is not replay:
        c['others'].append(str(replay.get('scenario')))


def _flush_classes(row):
    for (clause, kind, pat), c in row.pop('_classes', {}).items():
        obs = c['observed']
        if c['others']:
            obs += f" -- same class {list(pat)} in {len(c['others'])} further scenarios: {c['others'][:12]}"
        fx.add_failure(row, clause, kind, c['replay'], obs)


def check_footprint(row, stage, what, obs, replay, allow_query_change=False, failing=False,
                    shared_scratch=False):
    """clauses on inputs / locations / scratch for one run"""
    b, a = obs['before'], obs['after']
    changed = [n for n in b['inputs'] if a['inputs'].get(n) != b['inputs'][n]]
    if allow_query_change:
        changed = [n for n in changed if n != 'query_obsm.h5ad']
    if changed:
        _fail(row, CL_INPUT, 'input-modified', replay, f'changed or removed: {changed}', changed)
    new_in = sorted(set(a['in_listing']) - set(b['in_listing']))
    if new_in:
        _fail(row, CL_ONLY, 'file-in-input-dir', replay, f'new in the input directory: {new_in}', new_in)
    new_out = set(a['out']) - set(b['out'])
    allowed = EXPECTED[stage]
    extra = sorted(n for n in new_out if n not in allowed)
    if extra:
        _fail(row, CL_SCRATCH_FAIL if failing else CL_ONLY, 'unrequested-file-in-output-dir',
              replay, f'new in the output directory besides {sorted(allowed)}: {_top(extra)} '
                      f'({len(extra)} entries)', extra)
    for where in ('systmp', 'cwd'):
        left = sorted(n for n in set(a[where]) | set(a['at_return'][where])
                      if not n.startswith('pymp-'))      # multiprocessing's own socket directory
        if left:
            tag = ''
            if where == 'systmp' and all(os.path.basename(str(n)).startswith('query_marker_') for n in left):
                tag = ' [F-19-2]'      # recorded finding: mkstemp_clean(dir=None) is never removed
            _fail(row, CL_ONLY + tag, f'left-in-{where}', replay,
                  f'left in the {"system temporary" if where == "systmp" else "working"} '
                  f'directory: {_top(left)} ({len(left)} entries)'
                  + (f' -- run raised: {obs["raised"]}' if obs['raised'] else ''), left)
    if not shared_scratch:
        new_s = sorted((set(a['scratch']) | set(a['at_return']['scratch'])) - set(b['scratch']))
        if new_s:
            _fail(row, CL_SCRATCH_FAIL if failing else CL_SCRATCH, 'left-in-scratch', replay,
                  f'new in the scratch directory after return: {_top(new_s)} '
                  f'({len(new_s)} entries){" -- run raised: " + obs["raised"] if obs["raised"] else ""}',
                  new_s)


def _entry(world, stage, out, scratch, watch, nproc=None, start_at=None, fault=None, cfg_over=None):
    return scenario(world, stage, out, scratch, watch, nproc=nproc, start_at=start_at, fault=fault,
                    cfg_over=cfg_over)


class _Runner(object):
    def __init__(self, root, jobs, deadline):
        self.root, self.jobs, self.deadline = root, jobs, deadline
        self.n = 0

    def dirs(self, tag):
        self.n += 1
        d = os.path.join(self.root, f'{tag}_{self.n:03d}')
        out, scratch, watch = (os.path.join(d, x) for x in ('out', 'scratch', 'watch'))
        for x in (out, scratch, watch):
            os.makedirs(x)
        return out, scratch, watch

    def run(self, kwargs_list, timeout=120):
        return m.run_isolated_many(_entry, kwargs_list, jobs=min(max(self.jobs, 2), len(kwargs_list)),
                                   timeout=timeout, workdir=self.root)

    def late(self):
        return time.time() > self.deadline


def _world_desc(world):
    return dict(make_world='bounded.c14.make_world(root, seed=%d, encoding=%r)' % (
        world.seed, world.get('encoding')))


def _rp(world, stage, scn, **kw):
    d = dict(stage=stage, entry=m.STAGES[stage]['function'], scenario=scn, n_processors=NPROC[stage])
    d.update(_world_desc(world))
    d.update(kw)
    return d


def _usable(row, world, stage, status, obs, scn, clause=CL_SCRATCH):
    """count the case; True when the run returned normally and can be judged"""
    row['cases'] += 1
    if status == 'hang':
        fx.add_failure(row, clause, 'hang', _rp(world, stage, scn), f'no return within {obs} s')
        return False
    if status != 'ok':
        fx.add_error(row, f'{stage}/{scn}: {status}: {obs}')
        return False
    if obs['raised'] is not None:
        if clause in (CL_RERUN, CL_CONC):
            fx.add_failure(row, clause, 'run-raises', _rp(world, stage, scn), obs['raised'])
        else:       # a stage failing on valid input in a fresh directory is not what C19 is about
            fx.add_error(row, f'{stage}/{scn}: the run raised {obs["raised"]}')
        return False
    row['accepted'] += 1
    fx.note_case(row, (stage, scn, _world_desc(world)['make_world']), _rp(world, stage, scn))
    return True


def _phase_clean(R, rows, world, stages):
    """fresh directories, all stages in one batch; returns {stage: (out, scratch, watch)}"""
    dirs = {st: R.dirs(st + '_clean') for st in stages}
    res = R.run([dict(world=world, stage=st, out=dirs[st][0], scratch=dirs[st][1], watch=dirs[st][2])
                 for st in stages])
    ok = {}
    for st, (status, obs) in zip(stages, res):
        if _usable(rows[st], world, st, status, obs, 'clean'):
            check_footprint(rows[st], st, 'clean', obs, _rp(world, st, 'clean'))
            ok[st] = dirs[st]
    return ok


def _phase_stale_concurrent(R, row, world, stage, ref_out):
    out1, scr1, w1 = R.dirs(stage + '_stale')
    planted_s = _plant(scr1, STALE_SCRATCH)
    planted_o = _plant(out1, STALE_OUT)
    outa, scr2, wa = R.dirs(stage + '_concA')
    outb, _unused, wb = R.dirs(stage + '_concB')
    start = time.time() + 0.4
    batch = m.run_isolated_many(_entry, [
        dict(world=world, stage=stage, out=outa, scratch=scr2, watch=wa, start_at=start),
        dict(world=world, stage=stage, out=outb, scratch=scr2, watch=wb, start_at=start),
        dict(world=world, stage=stage, out=out1, scratch=scr1, watch=w1)], jobs=3, timeout=120,
        workdir=R.root)
    status, obs = batch[2]
    replay = _rp(world, stage, 'stale', planted_in_scratch=planted_s, planted_in_output_dir=planted_o)
    if _usable(row, world, stage, status, obs, 'stale'):
        check_footprint(row, stage, 'stale', obs, replay)
        for n in planted_o:                      # compare only what the stage wrote
            top = os.path.join(out1, n.split(os.sep)[0])
            if os.path.isdir(top):
                shutil.rmtree(top, ignore_errors=True)
            elif os.path.exists(top):
                os.unlink(top)
        d = m.outputs_diff(stage, ref_out, out1)
        if d:
            fx.add_failure(row, CL_STALE, 'result-differs', replay, d)
    scn = 'two processes started together, same scratch directory, different output directories'
    replay = _rp(world, stage, scn)
    oks = []
    for (status, obs), o in zip(batch[:2], (outa, outb)):
        if _usable(row, world, stage, status, obs, scn, CL_CONC):
            check_footprint(row, stage, 'concurrent', obs, replay, shared_scratch=True)
            d = m.outputs_diff(stage, ref_out, o)
            if d:
                fx.add_failure(row, CL_CONC, 'result-differs', replay, d)
            oks.append(obs)
    if len(oks) == 2:
        overlap = min(o['t1'] for o in oks) - max(o['t0'] for o in oks)
        row.setdefault('_overlap', []).append(round(overlap, 3))
        left = m.tree_listing(scr2)
        if left:
            fx.add_failure(row, CL_SCRATCH, 'left-in-shared-scratch', replay,
                           f'after both runs returned: {_top(left)} ({len(left)} entries)')


def _phase_rerun(R, rows, world, clean_dirs):
    """again into the directories of the clean runs (success after success), one batch"""
    stages = list(clean_dirs)
    keep = {}
    for st in stages:
        keep[st] = os.path.join(R.root, f'{st}_clean_copy')
        shutil.copytree(clean_dirs[st][0], keep[st])
    res = R.run([dict(world=world, stage=st, out=clean_dirs[st][0], scratch=clean_dirs[st][1],
                      watch=clean_dirs[st][2]) for st in stages])
    scn = 'rerun into the output and scratch directories of a finished run'
    for st, (status, obs) in zip(stages, res):
        if _usable(rows[st], world, st, status, obs, scn, CL_RERUN):
            replay = _rp(world, st, scn)
            check_footprint(rows[st], st, 'rerun', obs, replay)
            d = m.outputs_diff(st, keep[st], clean_dirs[st][0])
            if d:
                fx.add_failure(rows[st], CL_RERUN, 'result-differs', replay, d)
    return keep


def _bad_marker_files(world, root):
    garbage = os.path.join(root, 'markers_not_json.json')
    with open(garbage, 'w') as f:
        f.write('{"None": ["g00", ')
    nogenes = os.path.join(root, 'markers_unknown_genes.json')
    with open(nogenes, 'w') as f:
        json.dump({k: ['no_such_gene_%d' % i for i in range(3)] for k in world.marker_lookup}, f)
    return garbage, nogenes


def _phase_mapping_failures(R, row, world, ref_out, tier, rng):
    desc = _world_desc(world)
    garbage, nogenes = _bad_marker_files(world, R.root)
    modes = [('missing statistics file', dict(_missing_stats=True), None),
             ('marker file that is not JSON', dict(_marker_path=garbage), None),
             ('marker file naming no gene of the query', dict(_marker_path=nogenes), None)]
    faults = [dict(k=k, mode=mo, point=pt) for k in range(3) for mo in m.MODES for pt in m.POINTS]
    picked = faults if tier == 'thorough' else [faults[int(i)] for i in rng.choice(len(faults), 3, replace=False)]
    for f in picked:
        modes.append((f'injected worker failure {f}', {}, f))
    for rep in range(2 if tier == 'quick' else 6):
        f = dict(k=6 + rep % 2, mode=m.MODES[rep % 3], point='after', schedule='siblings-publish-at-cleanup')
        modes.append((f'injected worker failure {f} (chunk_size=2; neighbours write their chunk when '
                      f'the clean-up starts; a race: repetition {rep})', dict(chunk_size=2), f))
    variants = []
    for i, (name, over, fault) in enumerate(modes):
        variants.append((name, dict(over), fault))
        if tier == 'thorough' or i in (0, 1) or (fault is not None and i == len(modes) - 1):
            variants.append((name + ', tmp_dir=None', dict(over, _no_tmp_dir=True), fault))
    dirs = [R.dirs('mapping_fail') for _ in variants]
    res = R.run([dict(world=world, stage='mapping', out=d[0], scratch=d[1], watch=d[2], fault=fault,
                      cfg_over=over) for d, (name, over, fault) in zip(dirs, variants)])
    again = []
    for d, (name, over, fault), (status, obs) in zip(dirs, variants, res):
        row['cases'] += 1
        replay = dict(stage='mapping', entry=m.STAGES['mapping']['function'], scenario=name,
                      config_patch={k: (v if not isinstance(v, str) else os.path.basename(v))
                                    for k, v in over.items()}, fault=fault,
                      n_processors=NPROC['mapping'])
        replay.update(desc)
        if status == 'hang':
            fx.add_failure(row, CL_SCRATCH_FAIL, 'hang', replay, f'no return within {obs} s')
            continue
        if status != 'ok':
            fx.add_error(row, f'mapping/{name}: {status}: {obs}')
            continue
        if obs['raised'] is None:
            fx.add_error(row, f'mapping/{name}: the run was expected to fail but returned')
            continue
        if fault is not None and not obs['fired']:
            fx.add_error(row, f'mapping/{name}: fault not delivered')
            continue
        row['accepted'] += 1
        fx.note_case(row, ('mapping', name, desc['make_world']), replay)
        check_footprint(row, 'mapping', name, obs, replay, failing=True)
        if tier == 'thorough' or fault is None:
            again.append((d, name, replay))
    # success after failure, in the directories the failing runs left
    for d, name, replay in again:
        for n in os.listdir(d[0]):
            pth = os.path.join(d[0], n)
            if os.path.isfile(pth):
                os.unlink(pth)
    res = R.run([dict(world=world, stage='mapping', out=d[0], scratch=d[1], watch=d[2])
                 for d, name, replay in again]) if again else []
    for (d, name, replay), (status, obs2) in zip(again, res):
        row['cases'] += 1
        replay2 = dict(replay, scenario='successful run in the directories left by: ' + name)
        if status == 'ok' and obs2['raised'] is None:
            row['accepted'] += 1
            fx.note_case(row, ('mapping', 'after ' + name, desc['make_world']), replay2)
            for junk in [n for n in os.listdir(d[0]) if n not in EXPECTED['mapping']]:
                shutil.rmtree(os.path.join(d[0], junk), ignore_errors=True)
            dd = m.outputs_diff('mapping', ref_out, d[0])
            if dd:
                fx.add_failure(row, CL_RERUN, 'result-differs-after-failure', replay2, dd)
        elif status == 'ok':
            fx.add_failure(row, CL_RERUN, 'run-after-failure-raises', replay2, obs2['raised'])
        elif status == 'hang':
            fx.add_failure(row, CL_RERUN, 'hang', replay2, f'no return within {obs2} s')
        else:
            fx.add_error(row, f'mapping/after {name}: {status}: {obs2}')


def _phase_mapping_extras(R, row, world):
    desc = _world_desc(world)
    d1, d2 = R.dirs('mapping_notmp'), R.dirs('mapping_obsm')
    # the run that stores results in the query file gets a query file of its own
    # (outside the world directory, so that every file of the world must stay identical)
    os.makedirs(os.path.join(R.root, 'obsm_input'), exist_ok=True)
    q_obsm = os.path.join(R.root, 'obsm_input', 'query_obsm.h5ad')
    shutil.copy(world.query_path, q_obsm)
    sha_before = m.sha256(q_obsm)
    res = R.run([dict(world=world, stage='mapping', out=d1[0], scratch=d1[1], watch=d1[2],
                      cfg_over=dict(_no_tmp_dir=True)),
                 dict(world=world, stage='mapping', out=d2[0], scratch=d2[1], watch=d2[2],
                      cfg_over=dict(obsm_key='cdm_results', query_path=q_obsm))])
    # successful run without a scratch directory: nothing may be left anywhere
    status, obs = res[0]
    if _usable(row, world, 'mapping', status, obs, 'successful run with tmp_dir=None'):
        check_footprint(row, 'mapping', 'tmp_dir=None', obs,
                        _rp(world, 'mapping', 'successful run with tmp_dir=None'))
    # results stored in the query file: only that file may change
    status, obs = res[1]
    if _usable(row, world, 'mapping', status, obs, "obsm_key='cdm_results'"):
        check_footprint(row, 'mapping', 'obsm', obs, _rp(world, 'mapping', "obsm_key='cdm_results'"))
        if m.sha256(q_obsm) == sha_before:
            fx.add_error(row, 'mapping/obsm: the query file did not change although obsm_key was given')
        left = [n for n in os.listdir(os.path.dirname(q_obsm)) if n != 'query_obsm.h5ad']
        if left:
            fx.add_failure(row, CL_ONLY, 'file-next-to-query', _rp(world, 'mapping', "obsm_key='cdm_results'"),
                           f'new next to the query file: {left}')
    try:
        os.unlink(q_obsm)
    except OSError:
        pass


def run(tier='quick', seed=0, jobs=None):
    t_start = time.time()
    jobs = max(1, min(int(jobs or 2), 3))
    deadline = t_start + (50 if tier == 'quick' else 430)
    rng = np.random.default_rng([int(seed), 19])
    rows = {}
    for stage in STAGES:
        clauses = [CL_INPUT, CL_ONLY, CL_SCRATCH, CL_STALE, CL_RERUN, CL_CONC]
        if stage == 'mapping':
            clauses.append(CL_SCRATCH_FAIL)
        rows[stage] = fx.new_row(
            m.STAGES[stage]['function'], 'seeded-random' if tier == 'quick' else 'small-scope-exhaustive',
            "tiny world (6 leaves, 30 genes, 36 reference / 20 query cells); scenarios clean, "
            f"{len(STALE_SCRATCH)}+{len(STALE_OUT)} stale names, rerun, 2 concurrent runs"
            + ("; failing runs: missing statistics, 2 malformed marker files, injected worker failures "
               "(all 27 in thorough, 3 seeded in quick), with and without tmp_dir; success after failure; "
               "tmp_dir=None; obsm_key; CSC query" if stage == 'mapping' else ''), clauses)
    root = tempfile.mkdtemp(prefix='verif_', dir='/tmp')
    try:
        worlds = []
        encodings = [('csc', 'csr')] if tier == 'quick' else [('csc', 'csr'), ('csr', 'csc'), ('dense', 'dense')]
        for i, (q_enc, r_enc) in enumerate(encodings):
            try:
                worlds.append(m.make_world(os.path.join(root), seed + i, encoding=q_enc,
                                           ref_encoding=r_enc))
            except BaseException as e:   # noqa
                for r in rows.values():
                    fx.add_error(r, f'world ({q_enc}, {r_enc}) could not be built: {type(e).__name__}: {e}\n'
                                    f'{traceback.format_exc()[-1000:]}')
        R = _Runner(os.path.join(root, 'runs'), jobs, deadline)
        os.makedirs(R.root)

        def skipped(what):
            for r in rows.values():
                r.setdefault('_skipped', []).append(what)
        for wi, world in enumerate(worlds):
            if R.late():
                skipped(f'world {wi}')
                continue
            clean = _phase_clean(R, rows, world, STAGES)
            if 'mapping' in clean and not R.late():
                _phase_mapping_failures(R, rows['mapping'], world, clean['mapping'][0],
                                        tier if wi == 0 else 'quick', rng)
            if 'mapping' in clean and not R.late():
                _phase_mapping_extras(R, rows['mapping'], world)
            for st in STAGES:
                if st not in clean:
                    continue
                if R.late():
                    rows[st].setdefault('_skipped', []).append('stale / concurrent')
                    continue
                _phase_stale_concurrent(R, rows[st], world, st, clean[st][0])
            if not R.late():
                _phase_rerun(R, rows, world, clean)
            else:
                skipped('rerun')
            shutil.rmtree(R.root, ignore_errors=True)
            os.makedirs(R.root)
    finally:
        shutil.rmtree(root, ignore_errors=True)
    out = []
    for stage in STAGES:
        r = rows[stage]
        sk = r.pop('_skipped', None)
        ov = r.pop('_overlap', None)
        if ov is not None:
            r['bound'] += f'; overlap of the concurrent runs (s): {ov}'
        if sk:
            r['bound'] += f' -- not run (wall budget): {sk}'
        _flush_classes(r)
        out.append(fx.finish_row(r))
    out.append(row_stale_buffer(tier, seed))
    return out


CL_BUFFER = ("the mapping stage called with a results buffer directory that still holds per-chunk files of an earlier "
             "(failed) call returns exactly what it returns with a fresh directory")


def row_stale_buffer(tier, seed):
    """election_runner.run_type_assignment_on_h5ad with results_output_path = a directory in which an earlier
    call left '<r0>_<r1>_assignment.json' files (inside its own result_buffer_* sub-directory and directly)"""
    row = fx.new_row('cell_type_mapper.type_assignment.election_runner.run_type_assignment_on_h5ad#stale_buffer',
                     'seeded-random', "world of 6 leaves / 30 genes / 20 query cells; n_processors {1,2}; stale chunk files "
                     "of an earlier call on the same query (same cells, other results) planted in a sub-directory and at top level",
                     [CL_BUFFER])
    try:
        with fx.scratch() as d:
            world = m.make_world(str(d), int(seed) + 77)
            for nproc in (1, 2):
                scr = tempfile.mkdtemp(dir=str(d), prefix='scratch_')
                fresh = tempfile.mkdtemp(dir=str(d), prefix='fresh_')
                with fx.quiet():
                    want = m.run_election_direct(world, nproc, scr, results_output_path=fresh, chunk_size=7,
                                                 bootstrap_iteration=3)
                for where in ('sub-directory sorting first', 'sub-directory sorting last', 'top level'):
                    shared = tempfile.mkdtemp(dir=str(d), prefix='shared_')
                    stale_dir = shared
                    if where.startswith('sub-directory'):
                        stale_dir = os.path.join(shared, ('aa' if where.endswith('first') else 'zz') + '_buffer_of_a_failed_run')
                    os.makedirs(stale_dir, exist_ok=True)
                    # what an earlier call on the same query left behind: the same cells, other results
                    stale = json.loads(json.dumps(want, default=str))
                    for r in stale:
                        for lv in world.hierarchy:
                            r[lv]['assignment'] = 'STALE'
                            r[lv]['bootstrapping_probability'] = 0.123
                    for name in ('0_7_assignment.json', '7_14_assignment.json', '900_907_assignment.json'):
                        with open(os.path.join(stale_dir, name), 'w') as f:
                            json.dump(stale, f)
                    args = dict(n_processors=nproc, stale_files_in=where)
                    row['cases'] += 1
                    try:
                        with fx.quiet():
                            got = m.run_election_direct(world, nproc, scr, results_output_path=shared, chunk_size=7,
                                                        bootstrap_iteration=3)
                    except Exception as e:   # noqa
                        if not fx.escaped_from_package(e):
                            raise
                        row['accepted'] += 1
                        fx.add_failure(row, CL_BUFFER, 'raises', args, fx.package_error_text(e, 300))
                        continue
                    row['accepted'] += 1
                    fx.note_case(row, args)
                    if json.dumps(got, sort_keys=True, default=str) != json.dumps(want, sort_keys=True, default=str):
                        ids = [r.get('cell_id') for r in got]
                        fx.add_failure(row, CL_BUFFER, 'ensures', args,
                                       f"{len(got)} records (fresh directory: {len(want)}); ids {ids[:4]}...")
    except BaseException:   # noqa
        fx.add_error(row, traceback.format_exc()[-1500:])
    return fx.finish_row(row)


if __name__ == '__main__':
    m._main(run)
