"""C04 bounded stand-in: results depend only on inputs and seed, never on scheduling.

Every stage (reference statistics, reference markers, query marker selection, mapping through
run_mapping, the election called directly with the shared Manager list; thorough tier also p-value
mask, markers from the mask, parallel transposition) is run on one tiny world and its output
compared with a reference run:

  order     the same call with every dispatched worker delayed so that the workers finish in a
            chosen order (bounded.c14 shim: sleep before the worker body, i.e. before it publishes
            its result; all permutations for <= 3 workers in the thorough tier, reversed + seeded
            ones otherwise).  The completion order actually realised is recorded.
  workers   other worker counts.  Where the chunks are the same (mapping: chunk_size caps the
            chunk; markers / mask: 8-pair chunks; statistics: same work split) the outputs must be
            identical; for the statistics with a different work split the integer tables must be
            identical and the float sums equal to 1e-12 (regrouped partial sums).
  hashseed  the same call in a fresh interpreter ([python, '-c', ...]) under PYTHONHASHSEED=k.

Identical = HDF5 datasets equal (shape, dtype, values), JSON equal as data (a marker lookup is
compared as a mapping), mapping results / CSV body bitwise equal.
"""
import itertools
import json
import os
import shutil
import subprocess
import sys
import tempfile
import time
import traceback

import numpy as np

from bounded import fixture as fx
from bounded import c14 as m

PY = '/verif/.venv/bin/python'
QUICK_STAGES = ['stats', 'markers', 'selection', 'mapping', 'election']
ALL_STAGES = QUICK_STAGES + ['pmask', 'pmarkers', 'transposition']
# reference worker count (>= number of workers, so that any completion order can be realised)
REF_NPROC = {'stats': 3, 'markers': 2, 'selection': 4, 'mapping': 3, 'election': 3, 'pmask': 2,
             'pmarkers': 2, 'transposition': 3}
OTHER_NPROC = {'stats': (2, 1, 4), 'markers': (1, 3), 'selection': (2, 1), 'mapping': (2, 1),
               'election': (2, 1), 'pmask': (1, 3), 'pmarkers': (1, 3), 'transposition': (2, 4)}
SITES = {
    'markers': [(m.M + 'diff_exp.markers', '_find_markers_worker'),
                (m.M + 'utils.csc_to_csr_parallel', '_transpose_subset_of_indices')],
    'pmarkers': [(m.M + 'diff_exp.p_value_markers', '_find_markers_from_p_mask_worker'),
                 (m.M + 'utils.csc_to_csr_parallel', '_transpose_subset_of_indices')],
}

CL_ORDER = "same inputs, same worker count, any completion order of the workers => identical output"
CL_WORKERS = ("another worker count inducing the same chunks => identical output (statistics with a "
              "different work split: integer tables identical, float sums equal to 1e-12)")
CL_DTYPE = "... and the datasets of the output file are stored with the same dtype"
CL_HASH = "same inputs under any PYTHONHASHSEED (fresh interpreter) => identical output"
STEP = 0.07


def stats_split(n_cells, rows_at_a_time, nproc):
    """the work split of _precompute_summary_stats_from_h5ad_and_lookup for one file (own
    re-statement of the documented rule; used only to decide which comparison applies)"""
    n_per = int(np.ceil(n_cells / nproc))
    work = [[] for _ in range(nproc)]
    i, acc = 0, 0
    for r0 in range(0, n_cells, rows_at_a_time):
        r1 = min(n_cells, r0 + rows_at_a_time)
        work[i].append((r0, r1))
        acc += r1 - r0
        if acc > n_per:
            i += 1
            acc = 0
    return [w for w in work if w]


def same_chunks(stage, world, a, b):
    if stage == 'stats':
        n = len(world.reference_row_leaf)
        return stats_split(n, 7, a) == stats_split(n, 7, b)
    if stage in ('mapping', 'election'):
        n = len(world.query_cell_ids)

        def cs(p):
            return min(max(1, int(np.ceil(n / p))), 7)
        return cs(a) == cs(b)
    return True


def det_case(world, stage, out, scratch, nproc, delay_before=None, trace_dir=None):
    plan = dict(sites=SITES.get(stage, list(m.STAGES[stage]['sites'])), fault=None,
                delay_before=dict(delay_before or {}), trace_dir=trace_dir)
    raised = None
    with m.injected(plan):
        try:
            with fx.quiet():
                m.STAGES[stage]['run'](world, out, scratch, nproc)
        except Exception as e:   # noqa
            raised = f'{type(e).__name__}: {str(e)[:300]}'
    order = None
    if trace_dir:
        stamps = []
        for n in os.listdir(trace_dir):
            if n.endswith('.done'):
                with open(os.path.join(trace_dir, n)) as f:
                    stamps.append((float(f.read()), int(n[:-5])))
        order = [k for _, k in sorted(stamps)]
    return dict(raised=raised, dispatched=len(plan.get('dispatched', [])), order=order)


def _entry(world, stage, out, scratch, nproc, delay_before=None, trace_dir=None):
    return det_case(world, stage, out, scratch, nproc, delay_before, trace_dir)


# -- fresh interpreter under a hash seed -------------------------------------------------------

WORLD_KEYS = ('workdir', 'seed', 'tree', 'hierarchy', 'leaves', 'n_genes', 'reference_path',
              'reference_gene_names', 'precomputed_path', 'reference_marker_path', 'query_path',
              'query_gene_names', 'query_cell_ids', 'query_normalization', 'encoding',
              'marker_lookup_path', 'marker_lookup', 'n_per_utility', 'p_mask_path', 'tr_input_path',
              'tr_shape', 'marker_cache_path', 'reference_row_leaf', 'spec')


def dump_world(world, path):
    with open(path, 'w') as f:
        json.dump({k: world[k] for k in WORLD_KEYS if k in world}, f, default=list)


def load_world(path):
    import itertools as it
    with open(path) as f:
        w = fx.World(json.load(f))
    w._run_counter = it.count(1000)
    return w


def subprocess_main(spec_path):
    with open(spec_path) as f:
        spec = json.load(f)
    world = load_world(spec['world'])
    res = det_case(world, spec['stage'], spec['out'], spec['scratch'], spec['nproc'])
    res['hashseed_seen'] = os.environ.get('PYTHONHASHSEED')
    res['hash_probe'] = hash('cell_type_mapper') % 1000
    with open(spec['result'], 'w') as f:
        json.dump(res, f)


def launch_hash_run(world_json, stage, out, scratch, nproc, hashseed, workdir):
    import cell_type_mapper
    spec_path = os.path.join(workdir, f'spec_{stage}_{hashseed}_{time.time_ns()}.json')
    result = spec_path + '.result'
    with open(spec_path, 'w') as f:
        json.dump(dict(world=world_json, stage=stage, out=out, scratch=scratch, nproc=nproc,
                       result=result), f)
    env = dict(os.environ)
    env['PYTHONHASHSEED'] = str(hashseed)
    src = os.path.dirname(os.path.dirname(os.path.abspath(cell_type_mapper.__file__)))
    env['PYTHONPATH'] = os.pathsep.join([src, '/verif'] + [p for p in env.get('PYTHONPATH', '').split(os.pathsep) if p])
    code = "import sys; from bounded import c04; c04.subprocess_main(sys.argv[1])"
    p = subprocess.Popen([PY, '-c', code, spec_path], env=env, stdout=subprocess.DEVNULL,
                         stderr=subprocess.PIPE, cwd=workdir, start_new_session=True)
    return p, result


def wait_hash_run(p, result, timeout=150):
    try:
        _, err = p.communicate(timeout=timeout)
    except subprocess.TimeoutExpired:
        try:
            os.killpg(p.pid, 9)
        except OSError:
            pass
        p.kill()
        return 'hang', f'{timeout}'
    if os.path.exists(result):
        with open(result) as f:
            return 'ok', json.load(f)
    return 'died', f'exit {p.returncode}: {err.decode(errors="replace")[-600:]}'


# -- the module --------------------------------------------------------------------------------

def permutations_for(n, tier, rng):
    ident = tuple(range(n))
    if n <= 1:
        return []
    if tier == 'thorough' and n <= 3:
        return [p for p in itertools.permutations(range(n)) if p != ident] + [ident]
    out = [tuple(reversed(ident))]
    want = 2 if tier == 'quick' else 6
    tries = 0
    while len(out) < want and tries < 50:
        tries += 1
        p = tuple(int(x) for x in rng.permutation(n))
        if p != ident and p not in out:
            out.append(p)
    return out


CL_MULTI = ("query marker selection over several reference marker files: the table is a function of the files' contents and "
            "of their order in the list, not of where the files happen to be stored (ties between files included)")


def row_multi_reference(tier, seed):
    """two references of one taxonomy with the same number of cells in every leaf (every parent is a
    tie between the two files) and different data; the pair is copied to several directories (the paths,
    hence their hashes, differ) and the selection is run on each copy: all tables must be equal"""
    import h5py
    from cell_type_mapper.type_assignment.marker_cache_v2 import create_marker_gene_lookup_from_ref_list
    n_copies = 6 if tier == 'quick' else 12
    row = fx.new_row('cell_type_mapper.type_assignment.marker_cache_v2.create_marker_gene_lookup_from_ref_list',
                     'seeded-random', f"2 reference marker files of one 3-level taxonomy (tie in every parent), copied to "
                     f"{n_copies} directories, both list orders", [CL_MULTI])
    try:
        with fx.scratch() as d:
            wa = fx.build_world(d, int(seed) + 901, taxonomy='d3_bal', n_query=6, name='refA')
            wb = fx.build_world(d, int(seed) + 902, taxonomy='d3_bal', n_query=6, name='refB')
            genes = list(wa.query_gene_names)
            tables = {}
            for order in ('AB', 'BA'):
                for k in range(n_copies):
                    cdir = tempfile.mkdtemp(prefix=f'copy{k}_', dir=str(d))
                    refs = {}
                    for tag, w in (('A', wa), ('B', wb)):
                        sub = os.path.join(cdir, tag)
                        os.makedirs(sub)
                        sp = shutil.copy(w.precomputed_path, os.path.join(sub, 'precomputed_stats.h5'))
                        rp = shutil.copy(w.reference_marker_path, os.path.join(sub, 'reference_markers.h5'))
                        with h5py.File(rp, 'a') as f:
                            md = json.loads(f['metadata'][()].decode('utf-8'))
                            md['precomputed_path'] = sp
                            del f['metadata']
                            f.create_dataset('metadata', data=json.dumps(md).encode('utf-8'))
                        refs[tag] = rp
                    with fx.quiet():
                        lk = create_marker_gene_lookup_from_ref_list(
                            reference_marker_path_list=[refs[t] for t in order], query_gene_names=genes,
                            n_per_utility=3, n_per_utility_override=None, n_processors=1,
                            behemoth_cutoff=5000000, tmp_dir=cdir, drop_level=None)
                    lk = {kk: sorted(v) for kk, v in lk.items() if kk not in ('metadata', 'log')}
                    row['cases'] += 1
                    row['accepted'] += 1
                    fx.note_case(row, (order, k))
                    tables.setdefault(order, []).append(lk)
            for order, lst in tables.items():
                for k, lk in enumerate(lst[1:], 1):
                    if lk != lst[0]:
                        diff = sorted(kk for kk in set(lk) | set(lst[0]) if lk.get(kk) != lst[0].get(kk))
                        fx.add_failure(row, CL_MULTI, 'ensures',
                                       dict(list_order=order, copy=k, taxonomy='d3_bal', seeds=[int(seed) + 901, int(seed) + 902]),
                                       f"copy {k} of the same two files selects other markers than copy 0 for {diff[:4]}: "
                                       f"{ {kk: lk.get(kk) for kk in diff[:2]} } vs { {kk: lst[0].get(kk) for kk in diff[:2]} }")
                        break
    except BaseException:   # noqa
        fx.add_error(row, traceback.format_exc()[-1500:])
    return fx.finish_row(row)


def run(tier='quick', seed=0, jobs=None):
    """quick: one world; thorough: two worlds (seed, seed+1; second one CSC query / dense reference)"""
    if tier == 'quick':
        return _run_one(tier, seed, jobs, 50, {}) + [row_multi_reference(tier, seed)]
    first = _run_one(tier, seed, jobs, 215, {})
    second = _run_one(tier, seed + 1, jobs, 215, dict(encoding='csc', ref_encoding='dense'))
    out = []
    for a, b in zip(first, second):
        r = dict(a)
        for k in ('cases', 'accepted', 'distinct'):
            r[k] = a[k] + b[k]
        r['failures'] = a['failures'] + b['failures']
        r['error'] = a['error'] or b['error']
        r['bound'] = a['bound'] + ' || second world (CSC query, dense reference): ' + b['bound'].split('; workers dispatched', 1)[-1]
        out.append(r)
    return out + [row_multi_reference(tier, seed)]


def _run_one(tier, seed, jobs, budget, world_kw):
    t_start = time.time()
    jobs = max(1, min(int(jobs or 2), 3))
    deadline = t_start + budget
    rng = np.random.default_rng([int(seed), 4])
    stages = QUICK_STAGES if tier == 'quick' else ALL_STAGES
    hashseeds = [0, 12345] if tier == 'quick' else [0, 1, 2, 3, 12345, 4294967295]
    rows = {}
    for st in stages:
        rows[st] = fx.new_row(
            m.STAGES[st]['function'] if st != 'mapping' else m.STAGES[st]['function'],
            'small-scope-exhaustive' if tier == 'thorough' else 'seeded-random',
            f"tiny world (6 leaves, 30 genes, 36 reference / 20 query cells); reference n_processors="
            f"{REF_NPROC[st]}; completion orders: " + ("all permutations (<= 3 workers), reversed + seeded "
                                                       "beyond" if tier == 'thorough' else "reversed + 1 seeded")
            + f"; worker counts {list(OTHER_NPROC[st])}; PYTHONHASHSEED in {hashseeds}",
            [CL_ORDER, CL_WORKERS, CL_DTYPE, CL_HASH])
    root = tempfile.mkdtemp(prefix='verif_', dir='/tmp')
    try:
        try:
            world = m.make_world(root, seed, **world_kw)
        except BaseException as e:   # noqa
            for r in rows.values():
                fx.add_error(r, f'world could not be built: {type(e).__name__}: {e}\n'
                                f'{traceback.format_exc()[-1000:]}')
            return [fx.finish_row(r) for r in rows.values()]
        world_json = os.path.join(root, 'world.json')
        dump_world(world, world_json)
        runs = os.path.join(root, 'runs')
        os.makedirs(runs)
        counter = itertools.count()

        def dirs(tag):
            d = os.path.join(runs, f'{tag.replace("/", "-")}_{next(counter):03d}')
            out, scr, tr = (os.path.join(d, x) for x in ('out', 'scratch', 'trace'))
            for x in (out, scr, tr):
                os.makedirs(x)
            return out, scr, tr

        # hash-seed runs are started first (fresh interpreters are slow to come up) and collected
        # at the end; at most `jobs` at a time
        hash_queue = [(st, hs) for st in stages for hs in hashseeds]
        hash_running = []
        hash_done = []

        def pump_hash(block=False):
            nonlocal hash_running
            while True:
                still = []
                for item in hash_running:
                    st, hs, p, result, out = item
                    if p.poll() is None and not block:
                        still.append(item)
                        continue
                    hash_done.append((st, hs, out) + wait_hash_run(p, result))
                hash_running = still
                while hash_queue and len(hash_running) < max(1, jobs - 1) and time.time() < deadline - 8:
                    st, hs = hash_queue.pop(0)
                    out, scr, _ = dirs(f'{st}_hash{hs}')
                    p, result = launch_hash_run(world_json, st, out, scr, REF_NPROC[st], hs, runs)
                    hash_running.append((st, hs, p, result, out))
                if not block or not hash_running:
                    return

        # references
        refs = {}
        kws, tags = [], []
        for st in stages:
            out, scr, tr = dirs(f'{st}_ref')
            kws.append(dict(world=world, stage=st, out=out, scratch=scr, nproc=REF_NPROC[st], trace_dir=tr))
            tags.append((st, out))
        pump_hash()
        res = m.run_isolated_many(_entry, kws, jobs=jobs, timeout=120, workdir=root)
        for (st, out), (status, obs) in zip(tags, res):
            if status != 'ok' or obs['raised'] is not None:
                fx.add_error(rows[st], f'reference run: {status}: {obs if status != "ok" else obs["raised"]}')
                continue
            refs[st] = dict(out=out, n=obs['dispatched'], order=obs['order'])
            rows[st]['bound'] += f"; workers dispatched: {obs['dispatched']}"

        # order and worker-count variants
        cases = []
        for st in stages:
            if st not in refs:
                continue
            for perm in permutations_for(refs[st]['n'], tier, rng):
                delays = {k: round(STEP * rank, 3) for k, rank in enumerate(perm)}
                cases.append((st, 'order', REF_NPROC[st], delays, perm))
            for np_ in (OTHER_NPROC[st] if tier == 'thorough' else OTHER_NPROC[st][:1 + (st in ('stats', 'mapping', 'election'))]):
                cases.append((st, 'workers', np_, None, None))
        realised = {st: set() for st in stages}
        done, step = 0, max(6, jobs * 3)
        while done < len(cases):
            pump_hash()
            if time.time() > deadline - 6:
                for st, kind, np_, delays, perm in cases[done:]:
                    rows[st]['_skipped'] = rows[st].get('_skipped', 0) + 1
                break
            part_cases = cases[done:done + step]
            kws, outs = [], []
            for st, kind, np_, delays, perm in part_cases:
                out, scr, tr = dirs(f'{st}_{kind}')
                kws.append(dict(world=world, stage=st, out=out, scratch=scr, nproc=np_,
                                delay_before=delays, trace_dir=tr))
                outs.append(out)
            part = m.run_isolated_many(_entry, kws, jobs=jobs, timeout=120, workdir=root)
            for (st, kind, np_, delays, perm), out, (status, obs) in zip(part_cases, outs, part):
                row = rows[st]
                row['cases'] += 1
                clause = CL_ORDER if kind == 'order' else CL_WORKERS
                replay = dict(stage=st, entry=m.STAGES[st]['function'], kind=kind, n_processors=np_,
                              reference_n_processors=REF_NPROC[st], delay_before_worker_body_s=delays,
                              intended_completion_rank=perm, world=f'bounded.c14.make_world(root, {seed}, **{world_kw})',
                              replay='bounded.c04.det_case(world, stage, out, scratch, nproc, delay_before)')
                if status == 'hang':
                    fx.add_failure(row, clause, 'hang', replay, f'no return within {obs} s')
                    continue
                if status != 'ok':
                    fx.add_error(row, f'{st}/{kind}: {status}: {obs}')
                    continue
                if obs['raised'] is not None:
                    fx.add_failure(row, clause, 'raises', replay, obs['raised'])
                    continue
                row['accepted'] += 1
                replay['realised_completion_order'] = obs['order']
                if kind == 'order':
                    realised[st].add(tuple(obs['order'] or ()))
                    fx.note_case(row, (st, 'order', tuple(obs['order'] or ())), replay)
                else:
                    fx.note_case(row, (st, 'workers', np_), replay)
                rtol = None
                if kind == 'workers' and not same_chunks(st, world, REF_NPROC[st], np_):
                    if st != 'stats':
                        continue             # different documented chunking: nothing to compare
                    rtol = 1e-12
                notes = []
                d = m.outputs_diff(st, refs[st]['out'], out, float_rtol=rtol, dtype_notes=notes)
                if d:
                    fx.add_failure(row, clause, 'output-differs', replay, d)
                if notes:
                    # equal values stored with a different integer width (n_processors=1 writes
                    # int64 index arrays, >=2 workers uint8): recorded, not a violation of C04
                    row.setdefault('observations', [])
                    if len(row['observations']) < 5:
                        row['observations'].append('dtype differs, values ' + ('differ' if d else 'equal')
                                                   + ': ' + '; '.join(notes[:3]))
            done += step
        # hash seeds
        pump_hash(block=False)
        while (hash_queue or hash_running) and time.time() < deadline + 5:
            pump_hash(block=False)
            time.sleep(0.1)
        for item in hash_running:
            try:
                os.killpg(item[2].pid, 9)
            except OSError:
                pass
        left = len(hash_queue) + len(hash_running)
        probes = {}
        for st, hs, out, status, obs in hash_done:
            if st not in refs:
                continue
            row = rows[st]
            row['cases'] += 1
            replay = dict(stage=st, entry=m.STAGES[st]['function'], kind='hashseed', PYTHONHASHSEED=hs,
                          n_processors=REF_NPROC[st], world=f'bounded.c14.make_world(root, {seed}, **{world_kw})',
                          replay="PYTHONHASHSEED=k python -c 'from bounded import c04; c04.subprocess_main(spec)'")
            if status == 'hang':
                fx.add_failure(row, CL_HASH, 'hang', replay, f'no return within {obs} s')
                continue
            if status != 'ok':
                fx.add_error(row, f'{st}/hashseed {hs}: {status}: {obs}')
                continue
            if obs['raised'] is not None:
                fx.add_failure(row, CL_HASH, 'raises', replay, obs['raised'])
                continue
            if str(obs.get('hashseed_seen')) != str(hs):
                fx.add_error(row, f'{st}: PYTHONHASHSEED not in force in the child')
                continue
            probes.setdefault(st, set()).add(obs.get('hash_probe'))
            row['accepted'] += 1
            fx.note_case(row, (st, 'hashseed', hs), replay)
            d = m.outputs_diff(st, refs[st]['out'], out)
            if d:
                fx.add_failure(row, CL_HASH, 'output-differs', replay, d)
        for st in stages:
            r = rows[st]
            if st in refs:
                r['bound'] += f"; distinct completion orders realised: {len(realised[st])}"
                if len(probes.get(st, ())) > 1:
                    r['bound'] += f"; distinct string hash functions seen: {len(probes[st])}"
        if left:
            for st in stages:
                rows[st]['bound'] += ' -- some hash-seed runs not finished (wall budget)'
    finally:
        shutil.rmtree(root, ignore_errors=True)
    out = []
    for st in stages:
        r = rows[st]
        sk = r.pop('_skipped', 0)
        if sk:
            r['bound'] += f' -- {sk} order / worker-count cases not run (wall budget)'
        out.append(fx.finish_row(r))
    return out


if __name__ == '__main__':
    m._main(run)
