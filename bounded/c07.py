"""C07 bounded stand-in: metamorphic relations on REAL mapping runs — the result does not depend on
how the same biological data is presented.

  raw counts declared 'raw'  ==  log2(CPM+1) of the same counts declared 'log2CPM'      (1e-6, factor 1)
  raw cell multiplied by any positive constant                                           (1e-6, factor 1)
  gene columns permuted together with their names: raw input (1e-6, factor 1);
      log2CPM input: bitwise, any bootstrap factor (same seed, same chunking)
  log2CPM input: adding / removing genes that are not markers                            (bitwise, any factor)
  raw input containing a negative value is rejected with an error, no 'results' written
"""
import json
import traceback

import numpy as np

from bounded import fixture as fx
from bounded import c01
from bounded import c06

ENTRY = c01.ENTRY
ENTRY_NEG = 'cell_type_mapper.type_assignment.election_runner.run_type_assignment_on_h5ad'

CL_NORM = "raw counts declared 'raw' map like their log2(CPM+1) values declared 'log2CPM' (factor 1, floats to 1e-6)"
CL_SCALE = "multiplying each raw cell by its own positive constant does not change its record (factor 1, 1e-6)"
CL_PERM_RAW = "raw input: permuting gene columns together with their names does not change any record (factor 1, 1e-6)"
CL_PERM_LOG = "log2CPM input: permuting gene columns together with their names leaves the result bitwise unchanged (any factor, same seed)"
CL_EXTRA = "log2CPM input: adding or removing non-marker genes leaves the result bitwise unchanged (any factor, same seed)"
CL_NEG = "raw input containing a negative value is rejected with an error and no 'results' are written"


def _strip_all(blob):
    return [c06.strip(r) for r in blob['results']]


def _diff_blobs(a, b, tol):
    ra, rb = a['results'], b['results']
    if [r['cell_id'] for r in ra] != [r['cell_id'] for r in rb]:
        return "cell order / ids differ"
    for x, y in zip(ra, rb):
        d = fx.record_diff(c06.strip(x), c06.strip(y), tol)
        if d:
            return f"cell {x['cell_id']!r}: {d}"
    return None


def _task(task):
    out = []
    with fx.scratch() as d:
        try:
            world = fx.build_world(d, task['seed'], query_normalization='raw', **task['world'])
            rng = np.random.default_rng([task['seed'], 707])
            enc = task['world'].get('encoding', 'dense')
            X, ids, genes = world.query_X, list(world.query_cell_ids), list(world.query_gene_names)
            L = fx.to_log2cpm(X)
            shape_cfg = dict(flatten=task.get('flatten', False), drop_level=task.get('drop_level'),
                             chunk_size=task.get('chunk_size', 7), n_processors=2, n_runners_up=3)
            cfg1 = dict(shape_cfg, bootstrap_factor=1.0, bootstrap_iteration=3)
            cfgf = dict(shape_cfg, bootstrap_factor=task.get('factor', 0.5), bootstrap_iteration=9)
            markers = set(g for v in world.marker_lookup.values() for g in v)

            def run_q(Xn, gn, norm, cfg, idn=None, encoding=None):
                p = fx.write_query(world, Xn, idn or ids, gn, encoding=encoding or enc)
                blob, _ = fx.run_mapping_world(world, fx.mapping_config(world, query_path=p, normalization=norm, **cfg))
                return blob
            base_raw = run_q(X, genes, 'raw', cfg1)
            base_log_f = run_q(L, genes, 'log2CPM', cfgf)
        except BaseException as e:   # noqa
            return [dict(status='harness-error', error='base run: ' + fx.package_error_text(e) +
                         traceback.format_exc()[-1000:])]
        wa = dict(seed=task['seed'], query_normalization='raw', **task['world'])

        def attempt(clause, detail, fn, cfg):
            rec = dict(clause=clause, args=dict(build_world=wa, config=cfg, transform=detail))
            try:
                rec['status'], rec['observed'] = 'ok', fn()
            except Exception as e:   # noqa
                if fx.escaped_from_package(e):
                    rec['status'], rec['observed'] = 'raised', fx.package_error_text(e)
                else:
                    rec['status'], rec['observed'] = 'harness-error', traceback.format_exc()[-1200:]
            out.append(rec)

        for rep in range(task.get('reps', 1)):
            attempt(CL_NORM, "X -> log2(1+1e6*X/rowsum) written and declared 'log2CPM'",
                    lambda: _diff_blobs(base_raw, run_q(L, genes, 'log2CPM', cfg1), 1e-6), cfg1) if rep == 0 else None
            if rep == 0:
                # raw counts stored in a narrow integer type (what the package's own validator writes):
                # every count fits the type, the total of a deep cell does not
                Xi = np.round(X).astype(np.int64)
                fac = np.ceil(70000.0 / np.maximum(Xi.sum(axis=1, keepdims=True), 1)).astype(np.int64)
                Xbig = np.minimum(Xi * fac, 60000)
                if Xbig.sum(axis=1).max() > 65535:
                    attempt(CL_NORM,
                            dict(storage='raw counts stored as uint16 with cell totals above 65535',
                                 max_cell_total=int(Xbig.sum(axis=1).max())),
                            lambda: _diff_blobs(run_q(Xbig.astype(np.uint16), genes, 'raw', cfg1),
                                                run_q(fx.to_log2cpm(Xbig.astype(float)), genes, 'log2CPM', cfg1),
                                                1e-6), cfg1)
            s = np.exp(rng.uniform(np.log(1e-3), np.log(1e4), size=(X.shape[0], 1)))
            s[0, 0] = 0.37
            s[-1, 0] = 1000.0
            attempt(CL_SCALE, dict(per_cell_factor=s.ravel().round(6).tolist()),
                    lambda: _diff_blobs(base_raw, run_q(X * s, genes, 'raw', cfg1), 1e-6), cfg1)
            gp = rng.permutation(len(genes))
            attempt(CL_PERM_RAW, dict(gene_permutation=gp.tolist()),
                    lambda: _diff_blobs(base_raw, run_q(X[:, gp], [genes[i] for i in gp], 'raw', cfg1), 1e-6), cfg1)
            attempt(CL_PERM_LOG, dict(gene_permutation=gp.tolist()),
                    lambda: _diff_blobs(base_log_f, run_q(L[:, gp], [genes[i] for i in gp], 'log2CPM', cfgf), 0), cfgf)
            n_new = int(rng.integers(1, 6))
            new_cols = rng.uniform(0, 12, (X.shape[0], n_new)).round(4)
            new_names = [f'extra_{rep}_{k}' for k in range(n_new)]
            where = rng.permutation(len(genes) + n_new)
            attempt(CL_EXTRA, dict(added=new_names, values=new_cols.tolist(), placement=where.tolist()),
                    lambda: _diff_blobs(base_log_f, run_q(np.hstack([L, new_cols])[:, where],
                                                          [(genes + new_names)[i] for i in where], 'log2CPM', cfgf), 0), cfgf)
            removable = [i for i, g in enumerate(genes) if g not in markers]
            if removable:
                drop = set(rng.choice(removable, int(rng.integers(1, len(removable) + 1)), replace=False).tolist())
                keep = [i for i in range(len(genes)) if i not in drop]
                attempt(CL_EXTRA, dict(removed=[genes[i] for i in sorted(drop)]),
                        lambda: _diff_blobs(base_log_f, run_q(L[:, keep], [genes[i] for i in keep], 'log2CPM', cfgf), 0), cfgf)
        # ---- negative raw value ----
        marker_cols = [i for i, g in enumerate(genes) if g in markers]
        other_cols = [i for i, g in enumerate(genes) if g not in markers]
        spots = []
        if marker_cols:
            spots.append(('marker gene', int(rng.integers(0, X.shape[0])), int(rng.choice(marker_cols)), -1.0))
        if other_cols:
            spots.append(('non-marker gene', int(rng.integers(0, X.shape[0])), int(rng.choice(other_cols)), -0.25))
        spots.append(('last cell', X.shape[0] - 1, int(rng.integers(0, X.shape[1])), -3.0))
        for k, (what, r, c, val) in enumerate(spots[:task.get('n_neg', 3)]):
            for e2 in ([enc] if task.get('reps', 1) <= 2 else ['dense', 'csr', 'csc']):
                rec = dict(clause=CL_NEG, kind='must-raise', args=dict(build_world=wa, config=cfg1,
                                                    transform=dict(set_value=val, row=r, gene=genes[c], where=what,
                                                                   encoding=e2, normalization='raw')))
                try:
                    Xn = X.copy()
                    Xn[r, c] = val
                    p = fx.write_query(world, Xn, ids, genes, encoding=e2)
                    cfg = fx.mapping_config(world, query_path=p, normalization='raw', **cfg1)
                    try:
                        blob, _ = fx.run_mapping_world(world, cfg)
                        rec['status'] = 'ok'
                        rec['observed'] = (f"mapping succeeded ({len(blob.get('results', []))} records) although "
                                           f"X[{r},{genes[c]}]={val}")
                    except Exception as e:   # noqa
                        if not fx.escaped_from_package(e):
                            raise
                        blob = getattr(e, 'verif_blob', None)
                        rec['status'] = 'ok'
                        rec['observed'] = None
                        if isinstance(blob, dict) and 'results' in blob:
                            rec['observed'] = f"error raised ({type(e).__name__}) but the JSON output has 'results'"
                        rec['error_seen'] = fx.package_error_text(e, 200)
                except Exception:   # noqa
                    rec['status'], rec['observed'] = 'harness-error', traceback.format_exc()[-1200:]
                out.append(rec)
    return [r for r in out if r is not None]


def tasks_for(tier, seed):
    quick = tier == 'quick'
    plan = [
        dict(world=dict(taxonomy='d3_bal', encoding='dense'), factor=0.5),
        dict(world=dict(taxonomy='d2_bal', encoding='csr', zero_cell=True), factor=0.3, chunk_size=4),
        dict(world=dict(taxonomy='d3_chain', encoding='csc'), drop_level='class', factor=0.7),
        dict(world=dict(taxonomy='d1_four', encoding='csr', n_extra_query_genes=0), factor=0.9),
        dict(world=dict(taxonomy='d3_mid_single', encoding='dense', permute_query_genes=False), flatten=True, factor=0.4),
        dict(world=dict(taxonomy='d2_single_child', encoding='csc'), factor=0.6, chunk_size=18),
    ]
    return [dict(p, seed=int(seed) + i, reps=2 if quick else 5, n_neg=2 if quick else 3) for i, p in enumerate(plan)]


def run(tier='quick', seed=0, jobs=1):
    seed = int(seed or 0)
    bound = ("6 worlds (depth 1-3 incl. single-child parents, flatten / drop_level, dense/csr/csc, one all-zero cell), 18 query "
             "cells x <= 27 genes; per-cell scale factors log-uniform in [1e-3,1e4]; random gene permutations; 1-5 added "
             "non-marker genes, random subsets of non-marker genes removed; bootstrap factor 1 for tolerance relations, "
             "factors {0.3..0.9} x 9 iterations for bitwise ones")
    row = fx.new_row(ENTRY, 'seeded-random', bound, [CL_NORM, CL_SCALE, CL_PERM_RAW, CL_PERM_LOG, CL_EXTRA])
    row_n = fx.new_row(ENTRY_NEG, 'seeded-random',
                       "same worlds; one entry of the raw query set to a negative value (marker gene, non-marker gene, last "
                       "cell), dense/csr/csc, through run_mapping", [CL_NEG])
    try:
        rows = {c: row for c in (CL_NORM, CL_SCALE, CL_PERM_RAW, CL_PERM_LOG, CL_EXTRA)}
        rows[CL_NEG] = row_n
        c06.collect(rows, fx.parallel_map(_task, tasks_for(tier, seed), jobs), row)
    except BaseException:   # noqa
        fx.add_error(row, traceback.format_exc()[-2000:])
    return [fx.finish_row(row), fx.finish_row(row_n)]
