"""C18 bounded stand-in: the stages compose and cluster centroids map back to themselves.

Row 1 (compose): for every taxonomy shape x reference/query encoding the package's own stages are
chained (precompute -> reference markers -> query markers -> run_mapping); each stage must accept
the previous stage's output, and the files must name clusters and genes consistently.
Row 2 (centroids): the query holds, for every leaf, the mean log2(CPM+1) profile of that leaf's
reference cells (computed here directly from the reference h5ad), written in several gene orders
with extra genes, declared 'log2CPM'.  With the bootstrap draws traced (wrappers of bounded.c02,
installed from outside the package), a cell must be assigned to its leaf's ancestor with
probability 1 and average correlation 1 (1e-6) at every level with a choice, for every bootstrap
factor - whenever, on every gene subset actually drawn at that node, the centroid is not constant
and no other leaf below the node is perfectly correlated with it (pre-condition of the property).
"""
import json
import os
import traceback

import h5py
import numpy as np

from bounded import fixture as fx
from bounded import c01
from bounded import c02

ENTRY = c01.ENTRY
F_PRE = 'cell_type_mapper.diff_exp.precompute_from_anndata.precompute_summary_stats_from_h5ad'
F_REF = 'cell_type_mapper.diff_exp.markers.find_markers_for_all_taxonomy_pairs'
F_QM = 'cell_type_mapper.type_assignment.marker_cache_v2.create_marker_gene_lookup_from_ref_list'

CL_STAGES = "each stage accepts the previous stage's output: precompute -> reference markers -> query markers -> mapping run without error"
CL_STATS = ("statistics file: col_names = reference gene names (file order); cluster_to_row covers exactly the leaves; n_cells and "
            "sum (of log2(CPM+1)) of a leaf's row equal direct computation from the reference h5ad (1e-6)")
CL_REFM = "reference marker file carries the gene names of the statistics file it was built from, and its path"
CL_TABLE = ("query marker table: keys are exactly 'None' and 'level/node' for every parent of the taxonomy; every listed gene "
            "is both a reference gene and a query gene; every parent with >= 2 children has >= 1 marker")
CL_CENTROID = ("centroid query: at every level with a choice the leaf's ancestor is assigned with bootstrapping_probability 1 "
               "and avg_correlation 1 (1e-6), no runners-up; single-child levels follow the path")


# --------------------------------------------------------------------------------------------
# row 1: composition
# --------------------------------------------------------------------------------------------

def check_files(world):
    bad = []
    Xr = world.reference_X
    Lr = fx.to_log2cpm(Xr)
    leaf_level = world.hierarchy[-1]
    with h5py.File(world.precomputed_path, 'r') as f:
        col_names = json.loads(f['col_names'][()].decode('utf-8'))
        c2r = json.loads(f['cluster_to_row'][()].decode('utf-8'))
        n_cells = f['n_cells'][()]
        ssum = f['sum'][()]
        tree = json.loads(f['taxonomy_tree'][()].decode('utf-8'))
    if col_names != list(world.reference_gene_names):
        bad.append((CL_STATS, f"col_names {col_names[:5]}... != reference var names {world.reference_gene_names[:5]}..."))
    if sorted(c2r) != sorted(world.leaves):
        bad.append((CL_STATS, f"cluster_to_row keys {sorted(c2r)} != leaves {world.leaves}"))
    else:
        for lf in world.leaves:
            rows = world.tree[leaf_level][lf]
            r = c2r[lf]
            if int(n_cells[r]) != len(rows) or not np.allclose(ssum[r], Lr[rows].sum(axis=0), atol=1e-6, rtol=0):
                bad.append((CL_STATS, f"leaf {lf}: row {r} has n_cells={int(n_cells[r])} (expected {len(rows)}), "
                                      f"max |sum - direct| = {float(np.abs(ssum[r] - Lr[rows].sum(axis=0)).max()):.3g}"))
    if tree.get('hierarchy') != world.hierarchy:
        bad.append((CL_STATS, f"stored hierarchy {tree.get('hierarchy')}"))
    with h5py.File(world.reference_marker_path, 'r') as f:
        gn = json.loads(f['gene_names'][()].decode('utf-8'))
        md = json.loads(f['metadata'][()].decode('utf-8'))
    if gn != col_names or md.get('precomputed_path') != world.precomputed_path:
        bad.append((CL_REFM, f"gene_names equal: {gn == col_names}; precomputed_path {md.get('precomputed_path')}"))
    want = {'None'}
    multi = {'None'} if len(world.tree[world.hierarchy[0]]) > 1 else set()
    for lv in world.hierarchy[:-1]:
        for p, ch in world.tree[lv].items():
            want.add(f'{lv}/{p}')
            if len(ch) > 1:
                multi.add(f'{lv}/{p}')
    lk = world.marker_lookup
    if set(lk) != want:
        bad.append((CL_TABLE, f"keys {sorted(lk)} != parents {sorted(want)}"))
    qg, rg = set(world.query_gene_names), set(world.reference_gene_names)
    for k, v in lk.items():
        stray = [g for g in v if g not in qg or g not in rg]
        if stray or (k in multi and len(v) == 0) or len(set(v)) != len(v):
            bad.append((CL_TABLE, f"group {k}: {v}; genes outside query/reference: {stray}"))
    return bad


def _compose_task(task):
    rec = dict(args=dict(seed=task['seed'], **task['world']))
    with fx.scratch() as d:
        try:
            world = fx.build_world(d, task['seed'], **task['world'])
        except BaseException as e:   # noqa
            if fx.escaped_from_package(e):
                rec.update(status='raised', observed='stage failed: ' + fx.package_error_text(e, 600))
            else:
                rec.update(status='harness-error', error=traceback.format_exc()[-1500:])
            return rec
        try:
            rec['bad'] = check_files(world)
            try:
                blob, _ = fx.run_mapping_world(world, fx.mapping_config(world, **task.get('config', {})))
                rec['status'] = 'ok'
                if len(blob.get('results', [])) != len(world.query_cell_ids):
                    rec['bad'].append((CL_STAGES, f"{len(blob.get('results', []))} records"))
            except Exception as e:   # noqa
                if not fx.escaped_from_package(e):
                    raise
                msg = fx.package_error_text(e, 600)
                if world.shape in fx.SHAPES_TOP_SINGLE and 'KeyError: None' in msg:
                    rec.update(status='rejected')     # D-1: exception-freedom on this shape is C01's clause
                else:
                    rec.update(status='raised', observed='mapping stage failed: ' + msg)
        except BaseException:   # noqa
            rec.update(status='harness-error', error=traceback.format_exc()[-1500:])
    return rec


# --------------------------------------------------------------------------------------------
# row 2: centroids
# --------------------------------------------------------------------------------------------

def _centroid_task(task):
    out = []
    with fx.scratch() as d:
        try:
            world = fx.build_world(d, task['seed'], **task['world'])
            Xr, _, ref_genes = c02._read_h5ad(world.reference_path)
            Lr = fx.to_log2cpm(Xr)
            leaf_level = world.hierarchy[-1]
            profile = {lf: Lr[world.tree[leaf_level][lf], :].mean(axis=0) for lf in world.leaves}
            ref_col = {g: i for i, g in enumerate(ref_genes)}
            c2p = fx.child_to_parent(world.tree)
            rng = np.random.default_rng([task['seed'], 1818])
        except BaseException as e:   # noqa
            return [dict(status='harness-error', error='world build: ' + fx.package_error_text(e) +
                         traceback.format_exc()[-800:])]
        wa = dict(seed=task['seed'], **task['world'])
        for case in task['cases']:
            rec = dict(args=dict(build_world=wa, config=case), n_checked=0, n_skipped=0, bad=[])
            try:
                # query = the centroids, in a fresh gene order with extra genes, ids in shuffled order
                order = list(rng.permutation(len(world.leaves)))
                reps = case.get('copies', 1)
                leaves_q = [world.leaves[i] for i in order] * reps
                genes = list(ref_genes) + [f'noise_{k}' for k in range(case.get('n_extra', 2))]
                M = np.array([np.concatenate([profile[lf], rng.uniform(0, 9, case.get('n_extra', 2))]) for lf in leaves_q])
                gp = rng.permutation(len(genes))
                ids = [f'centroid_{k}_{lf}' for k, lf in enumerate(leaves_q)]
                rec['args']['query'] = dict(rows=leaves_q, gene_order=[genes[i] for i in gp])
                qpath = fx.write_query(world, M[:, gp], ids, [genes[i] for i in gp],
                                       encoding=task['world'].get('encoding', 'dense'), name='centroids')
                cfgkw = {k: v for k, v in case.items() if k not in ('copies', 'n_extra')}
                cfg = fx.mapping_config(world, query_path=qpath, normalization='log2CPM', **cfgkw)
                tdir = os.path.join(str(d), f'trace_{len(out)}')
                os.makedirs(tdir)
                with c02._Trace(tdir) as tr:
                    try:
                        blob, _ = fx.run_mapping_world(world, cfg)
                    except Exception as e:   # noqa
                        if not fx.escaped_from_package(e):
                            raise
                        rec.update(status='raised', observed=fx.package_error_text(e, 500))
                        out.append(rec)
                        continue
                chunks = tr.read()
                red = c01.reduced_spec(world, cfgkw)
                hr = red['hierarchy']
                tree_red = fx.tree_dict_from_spec(red, {lf: [] for lf in red[hr[-1]]})
                res = fx.by_cell_id(blob)
                for ch in chunks:
                    by_node = {(tuple(v['parent']) if v['parent'] is not None else None): v for v in ch['visits']}
                    for cid in ch['names']:
                        lf = leaves_q[ids.index(cid)]
                        # path of the leaf in the reduced tree
                        path = {}
                        node = lf
                        for lv in reversed(world.hierarchy):
                            if lv in hr:
                                path[lv] = node
                            if lv != world.hierarchy[0]:
                                node = c2p[lv][node]
                        # "assigned to that leaf and its ancestors": the levels removed by drop_level / flatten
                        # carry the ancestor of the leaf in the STORED taxonomy
                        # (ancestors of the leaf that was ASSIGNED: whether that is the centroid's own leaf is
                        # decided level by level below, under the statement's pre-condition)
                        node = (res.get(cid, {}).get(world.hierarchy[-1]) or {}).get('assignment')
                        for lv in reversed(world.hierarchy):
                            if node is None:
                                break
                            if lv not in hr:
                                a = res.get(cid, {}).get(lv)
                                if not isinstance(a, dict) or a.get('assignment') != node:
                                    rec['bad'].append(f"cell {cid} (centroid of {lf}): removed level {lv} reports "
                                                      f"{a.get('assignment') if isinstance(a, dict) else a!r}, "
                                                      f"the ancestor of the assigned leaf is {node!r}")
                                    break
                            if lv != world.hierarchy[0]:
                                node = c2p[lv].get(node)
                        parent = None
                        for lv in hr:
                            kids = fx.children_of(tree_red, parent[0] if parent else None, parent[1] if parent else None)
                            a = res.get(cid, {}).get(lv)
                            if not isinstance(a, dict) or 'assignment' not in a:
                                rec['bad'].append(f"cell {cid}: no record / no assignment at level {lv}")
                                break
                            if len(kids) > 1:
                                v = by_node.get(parent)
                                if v is None or not v.get('draws'):
                                    rec['bad'].append(f"cell {cid}: no vote recorded at node {parent} on the path of its leaf")
                                    break
                                # pre-condition on the subsets actually drawn
                                leaves_here = fx.leaves_under(tree_red, parent[0] if parent else None,
                                                              parent[1] if parent else None)
                                premise = True
                                for dr in v['draws']:
                                    gsel = [ref_col[v['r_genes'][j]] for j in dr]
                                    me = profile[lf][gsel]
                                    if np.all(me == me[0]):
                                        premise = False
                                        break
                                    for other in leaves_here:
                                        if other != lf and c02.pearson(profile[other][gsel][None, :], me[None, :])[0, 0] \
                                                > 1 - 1e-9:
                                            premise = False
                                            break
                                    if not premise:
                                        break
                                if not premise:
                                    rec['n_skipped'] += 1
                                    break
                                rec['n_checked'] += 1
                                ok = (a['assignment'] == path[lv] and a['bootstrapping_probability'] == 1.0 and
                                      abs(a['avg_correlation'] - 1.0) <= 1e-6 and a.get('runner_up_assignment') == [])
                                if not ok:
                                    rec['bad'].append(f"cell {cid} (centroid of {lf}) level {lv}: expected {path[lv]!r} p=1 corr=1, "
                                                      f"got {json.dumps({k: a.get(k) for k in ('assignment', 'bootstrapping_probability', 'avg_correlation', 'runner_up_assignment')})}; "
                                                      f"genes at node {v['r_genes']}, draws {v['draws'][:3]}...")
                                    break
                            else:
                                if a['assignment'] != path[lv] or a['bootstrapping_probability'] != 1.0:
                                    rec['bad'].append(f"cell {cid} level {lv} (single child): {a['assignment']!r} p="
                                                      f"{a['bootstrapping_probability']!r}, expected {path[lv]!r} p=1")
                                    break
                            parent = (lv, path[lv])
                rec['status'] = 'ok'
            except BaseException:   # noqa
                rec.update(status='harness-error', error=traceback.format_exc()[-1500:])
            out.append(rec)
    return out


def tasks(tier, seed):
    quick = tier == 'quick'
    rng = np.random.default_rng([int(seed), 181])
    encs = ['dense', 'csr', 'csc']
    compose = []
    for i, s in enumerate(fx.SHAPES):
        for j, (re_, qe) in enumerate([('dense', 'csr'), ('csr', 'csc'), ('csc', 'dense')] if not quick else
                                      [(encs[(i + seed) % 3], encs[(i + seed + 1) % 3])]):
            compose.append(dict(seed=int(seed) + i + 10 * j,
                                world=dict(taxonomy=s, ref_encoding=re_, encoding=qe, n_query=8,
                                           n_genes=int(rng.choice([18, 24, 30])), n_cells_per_leaf=int(rng.choice([4, 6, 9])),
                                           n_per_utility=int(rng.choice([1, 3, 5])),
                                           n_unlabelled=(4 if (i + j) % 2 == 0 else 0)),
                                config=dict(csv=True, hdf5=True)))
    # boundary cluster size (a leaf with exactly two reference cells under a two-leaf parent: the
    # smallest cluster that still gets markers) and a reference spread over several h5ad files read
    # by fewer workers than files
    compose.append(dict(seed=int(seed) + 61, world=dict(taxonomy='d3_bal', n_query=8, cells_per_leaf={'c0': 2, 'c3': 2},
                                                        n_per_utility=3), config=dict()))
    compose.append(dict(seed=int(seed) + 62, world=dict(taxonomy='d2_bal', n_query=8, n_ref_files=3, n_processors=1,
                                                        n_unlabelled=3, ref_encoding='csr'), config=dict()))
    compose.append(dict(seed=int(seed) + 63, world=dict(taxonomy='d3_chain', n_query=8, n_ref_files=3, n_processors=2,
                                                        cells_per_leaf={'c2': 2}), config=dict()))
    # more than 255 genes: gene indices no longer fit the narrowest integer type the marker files use
    compose.append(dict(seed=int(seed) + 64, world=dict(taxonomy='d3_bal', n_query=8, n_genes=300, n_per_utility=5,
                                                        ref_encoding='csc', encoding='csr'), config=dict(csv=True)))
    if not quick:
        for r in range(12):
            compose.append(dict(seed=int(seed) + 100 + r, world=dict(
                taxonomy=fx.random_taxonomy_spec(rng, 1 + r % 3, 6), ref_encoding=encs[r % 3], encoding=encs[(r + 1) % 3],
                n_query=8), config=dict()))
    cent = []
    shapes = ['d3_bal', 'd2_bal', 'd3_chain', 'd1_four', 'd2_single_child', 'd3_mid_single', 'd3_reuse']
    for i, s in enumerate(shapes):
        h = fx.taxonomy_spec(s)['hierarchy']
        factors = dict(bootstrap_factor=[0.3, 0.5, 0.8, 1.0], bootstrap_iteration=[1, 10, 300], chunk_size=[2, 40],
                       n_processors=[1, 2], flatten=[False, True], drop_level=[None] + list(h[:-1]), copies=[1, 2],
                       n_extra=[0, 3], rng_seed=[5, 77])
        extra = {}
        if s == 'd3_bal':
            extra = dict(cells_per_leaf={'c0': 2, 'c3': 2})
        elif s == 'd2_bal':
            extra = dict(n_ref_files=3, n_processors=1)
        elif s == 'd3_chain':
            extra = dict(n_ref_files=2, n_processors=1, cells_per_leaf={'c2': 2})
        elif s == 'd2_single_child':
            extra = dict(n_genes=290)
        cent.append(dict(seed=int(seed) + i, world=dict(taxonomy=s, encoding=encs[(i + seed) % 3], n_query=6,
                                                        n_unlabelled=(5 if i % 2 == 0 else 0), **extra),
                         cases=c01.covering_sample(factors, 8 if quick else 30, rng)))
    return compose, cent


def run(tier='quick', seed=0, jobs=1):
    seed = int(seed or 0)
    row1 = fx.new_row(ENTRY, 'seeded-random',
                      "11 taxonomy shapes + a leaf with exactly two reference cells + a reference spread over 2-3 files read by 1-2 workers" + ("" if tier == 'quick' else " x 3 reference/query encoding pairs + 12 random trees") +
                      ", reference 4-9 cells per leaf x 18-30 genes stored dense/csr/csc, n_per_utility {1,3,5}; stages chained "
                      "through their files; csv + hdf5 outputs requested",
                      [CL_STAGES, CL_STATS, CL_REFM, CL_TABLE])
    row1['function'] = ENTRY
    row2 = fx.new_row(ENTRY, 'seeded-random',
                      "6 taxonomy shapes (depth 1-3, single-child parents), one or two centroid cells per leaf in shuffled order, "
                      "fresh gene order + 0/3 extra genes; bootstrap_factor {0.3,0.5,0.8,1} x iterations {1,10} x chunk {2,40} x "
                      "workers {1,2} x flatten x drop_level x rng_seed {5,77}; pre-condition evaluated on the traced draws",
                      [CL_CENTROID])
    try:
        compose, cent = tasks(tier, seed)
        for status, rec in fx.parallel_map(_compose_task, compose, jobs):
            if status != 'ok':
                fx.add_error(row1, rec)
                continue
            row1['cases'] += 1
            if rec['status'] == 'harness-error':
                fx.add_error(row1, rec['error'])
                continue
            if rec['status'] == 'rejected':
                continue
            row1['accepted'] += 1
            fx.note_case(row1, rec['args'])
            if rec['status'] == 'raised':
                fx.add_failure(row1, CL_STAGES, 'raises', rec['args'], rec['observed'])
            for clause, obs in rec.get('bad', []):
                fx.add_failure(row1, clause, 'ensures', rec['args'], obs)
    except BaseException:   # noqa
        fx.add_error(row1, traceback.format_exc()[-2000:])
    try:
        skipped = 0
        for status, val in fx.parallel_map(_centroid_task, cent, jobs):
            if status != 'ok':
                fx.add_error(row2, val)
                continue
            for rec in val:
                if rec['status'] == 'harness-error':
                    fx.add_error(row2, rec['error'])
                    continue
                if rec['status'] == 'raised':
                    row2['cases'] += 1
                    continue            # exception-freedom: C01
                row2['cases'] += rec['n_checked'] + rec['n_skipped']
                row2['accepted'] += rec['n_checked']
                skipped += rec['n_skipped']
                for k in range(rec['n_checked']):
                    fx.note_case(row2, (json.dumps(rec['args'], sort_keys=True, default=str)[:300], k), rec['args'])
                for obs in rec['bad']:
                    fx.add_failure(row2, CL_CENTROID, 'ensures', rec['args'], obs)
        row2['bound'] += f"; cell-levels outside the pre-condition (skipped): {skipped}"
        if row2['accepted'] == 0 and row2['error'] is None:
            fx.add_error(row2, 'vacuity guard: no centroid cell-level satisfied the pre-condition')
    except BaseException:   # noqa
        fx.add_error(row2, traceback.format_exc()[-2000:])
    return [fx.finish_row(row1), fx.finish_row(row2)]
