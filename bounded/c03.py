"""C03 bounded stand-in: the arithmetic contract of the confidence fields, evaluated on every record
of REAL mapping outputs (same world/config family as bounded.c01, extended with iteration count 1,
zero runners-up, more runners-up requested than siblings, bootstrap factors 0.3 / 0.6 / 1.0).
"""
import json
import traceback

from bounded import fixture as fx
from bounded import c01

ENTRY = c01.ENTRY

CL_PROB = "directly assigned level: bootstrapping_probability = k/iterations with integer 1 <= k <= iterations (so in (0,1])"
CL_RU_LEN = ("runner_up_assignment / _correlation / _probability have equal length <= n_runners_up "
             "(and <= number of siblings)")
CL_RU_NAMES = "runner-up names are pairwise distinct, differ from the winner and are children of the winner's parent (reduced tree)"
CL_RU_PROB = "runner-up probabilities are multiples of 1/iterations, > 0, non-increasing, none larger than the winner's"
CL_SUM = "winner + runners-up probabilities sum to <= 1, and == 1 when n_runners_up + 1 >= number of siblings"
CL_CORR = "avg_correlation and runner_up_correlation lie in [-1, 1] (tolerance 1e-6)"
CL_AGG = "aggregate_probability = running product of bootstrapping_probability over the directly assigned levels from the top"
CL_SINGLE = ("single-child parent: probability 1.0, no runners-up, avg_correlation = that of the nearest level with a real "
             "choice (above; below when no level above had a choice)")
CL_INFER = ("inferred level (directly_assigned False): no runner_up_* fields; bootstrapping_probability, avg_correlation, "
            "aggregate_probability repeat the voted descendant's")
CLAUSES = [CL_PROB, CL_RU_LEN, CL_RU_NAMES, CL_RU_PROB, CL_SUM, CL_CORR, CL_AGG, CL_SINGLE, CL_INFER]

EPS = 1e-9


def _is_num(x):
    return isinstance(x, (int, float)) and not isinstance(x, bool) and x == x


def check_arithmetic(rec, stats=None):
    """-> list of (clause, observed) for one successful mapping outcome"""
    bad = []
    stored_h = rec['stored_tree']['hierarchy']
    red = rec['reduced']
    hr = red['hierarchy']
    tree_red = fx.tree_dict_from_spec(red, {lf: [] for lf in red[hr[-1]]})
    ta = rec['type_assignment']
    n_iter = int(ta['bootstrap_iteration'])
    n_ru = int(ta['n_runners_up'])
    stats = stats if stats is not None else {}
    for i, r in enumerate(rec['results'] or []):
        who = f"row {i} ({r.get('cell_id')})"
        try:
            prod = 1.0
            has_choice = []
            for k, lv in enumerate(hr):
                a = r[lv]
                pl = hr[k - 1] if k else None
                pn = r[pl]['assignment'] if k else None
                sibs = fx.children_of(tree_red, pl, pn)
                has_choice.append(len(sibs) > 1)
                p = a.get('bootstrapping_probability')
                ra = a.get('runner_up_assignment')
                rc = a.get('runner_up_correlation')
                rp = a.get('runner_up_probability')
                if not _is_num(p):
                    bad.append((CL_PROB, f"{who} {lv}: bootstrapping_probability={p!r}"))
                    continue
                v = p * n_iter
                if abs(v - round(v)) > 1e-7 or not (1 <= round(v) <= n_iter) or not (0 < p <= 1):
                    bad.append((CL_PROB, f"{who} {lv}: p={p!r} with {n_iter} iterations (p*iterations={v!r})"))
                if not (isinstance(ra, list) and isinstance(rc, list) and isinstance(rp, list)) or \
                        not (len(ra) == len(rc) == len(rp)) or len(ra) > n_ru or len(ra) > max(0, len(sibs) - 1):
                    bad.append((CL_RU_LEN, f"{who} {lv}: runner-up lists {ra!r} {rc!r} {rp!r}; requested {n_ru}, "
                                           f"siblings {sibs}"))
                    continue
                if len(set(ra)) != len(ra) or a['assignment'] in ra or any(x not in sibs for x in ra):
                    bad.append((CL_RU_NAMES, f"{who} {lv}: winner {a['assignment']!r}, runners-up {ra!r}, "
                                             f"children of parent {pn!r}: {sibs}"))
                prev = p
                okp = True
                for x in rp:
                    if not _is_num(x) or x <= 0 or x > prev + EPS or abs(x * n_iter - round(x * n_iter)) > 1e-7:
                        okp = False
                    prev = x if _is_num(x) else prev
                if not okp:
                    bad.append((CL_RU_PROB, f"{who} {lv}: winner p={p!r}, runner-up p={rp!r}, iterations {n_iter}"))
                tot = p + sum(x for x in rp if _is_num(x))
                if tot > 1 + 1e-7 or (n_ru + 1 >= len(sibs) and abs(tot - 1) > 1e-7):
                    bad.append((CL_SUM, f"{who} {lv}: p + runners-up = {tot!r} (requested {n_ru} runners-up, "
                                        f"{len(sibs)} siblings, listed {len(rp)})"))
                corr = a.get('avg_correlation')
                if not _is_num(corr) or abs(corr) > 1 + 1e-6 or any((not _is_num(x)) or abs(x) > 1 + 1e-6 for x in rc):
                    bad.append((CL_CORR, f"{who} {lv}: avg_correlation={corr!r}, runner_up_correlation={rc!r}"))
                prod *= p
                agg = a.get('aggregate_probability')
                if not _is_num(agg) or abs(agg - prod) > 1e-9:
                    bad.append((CL_AGG, f"{who} {lv}: aggregate_probability={agg!r}, running product={prod!r}"))
                if len(rp):
                    stats['with_runners_up'] = stats.get('with_runners_up', 0) + 1
                if len(sibs) > 1 and p < 1:
                    stats['split_votes'] = stats.get('split_votes', 0) + 1
            # single-child parents
            for k, lv in enumerate(hr):
                if has_choice[k]:
                    continue
                a = r[lv]
                stats['single_child_levels'] = stats.get('single_child_levels', 0) + 1
                above = [j for j in range(k - 1, -1, -1) if has_choice[j]]
                below = [j for j in range(k + 1, len(hr)) if has_choice[j]]
                src = above[0] if above else (below[0] if below else None)
                want = r[hr[src]].get('avg_correlation') if src is not None else None
                got = a.get('avg_correlation')
                ok = (a.get('bootstrapping_probability') == 1.0 and a.get('runner_up_assignment') == [] and
                      a.get('runner_up_correlation') == [] and a.get('runner_up_probability') == [])
                if src is not None:
                    ok = ok and _is_num(got) and _is_num(want) and abs(got - want) <= 1e-12
                if not ok:
                    bad.append((CL_SINGLE, f"{who} {lv}: {json.dumps(a)[:300]}; nearest level with a choice: "
                                           f"{hr[src] if src is not None else None} avg_correlation={want!r}"))
            # inferred levels
            for k, lv in enumerate(stored_h):
                if lv in hr:
                    continue
                stats['inferred_levels'] = stats.get('inferred_levels', 0) + 1
                below = next((x for x in stored_h[k + 1:] if x in hr), None)
                a = r[lv]
                ru_keys = [x for x in a if x.startswith('runner_up')]
                src = r[below] if below is not None else None
                same = src is not None and all(
                    _is_num(a.get(f)) and abs(a.get(f) - src.get(f)) <= 1e-12
                    for f in ('bootstrapping_probability', 'avg_correlation', 'aggregate_probability'))
                if ru_keys or not same:
                    bad.append((CL_INFER, f"{who} {lv}: {json.dumps(a)[:260]} vs voted {below}: "
                                          f"{json.dumps({f: src.get(f) for f in ('bootstrapping_probability', 'avg_correlation', 'aggregate_probability')}) if src else None}"))
        except (KeyError, TypeError) as e:
            # malformed record: structure is C01's business; report under the clause that needs the field
            bad.append((CL_PROB, f"{who}: record lacks a field needed by the arithmetic contract: {type(e).__name__}: {e}"))
        if len(bad) > 12:
            break
    return bad


def run(tier='quick', seed=0, jobs=1):
    seed = int(seed or 0)
    bound = ("records of mapping outputs over 9 taxonomy shapes (depth 1-3, <= 6 leaves, single-child parents, single top "
             f"node) + {3 if tier == 'quick' else 14} random trees, 18 query cells (pure / mixed / noise / all-zero); "
             "pairwise-covering sample of "
             "flatten x drop_level x bootstrap_iteration {1,2,7,20} x n_runners_up {0,1,2,10} x bootstrap_factor "
             "{0.3,0.6,1.0} x chunk_size {4,n} x n_processors {1,2}; each run's JSON records and the same records read back "
             "from its HDF5 output")
    row = fx.new_row(ENTRY, 'seeded-random', bound, CLAUSES)
    stats = {}
    try:
        tasks = c01.make_tasks(tier, seed, 'c03')
        outcomes, herr = c01.run_tasks(tasks, jobs)
        for e in herr:
            fx.add_error(row, e)
        for rec in outcomes:
            if rec['status'] != 'ok':
                # exception-freedom is C01's clause; nothing to evaluate here
                row['cases'] += 1
                continue
            n_rec = len(rec['results'] or [])
            row['cases'] += n_rec
            row['accepted'] += n_rec
            key = (json.dumps(rec['world_args'], sort_keys=True, default=str), json.dumps(rec['case'], sort_keys=True))
            for i in range(n_rec):
                fx.note_case(row, (key, i), dict(c01.replay_args(rec), record=0))
            try:
                for clause, observed in check_arithmetic(rec, stats):
                    fx.add_failure(row, clause, 'ensures', c01.replay_args(rec), observed)
                if rec.get('results_hdf5') is not None:
                    for clause, observed in check_arithmetic(dict(rec, results=rec['results_hdf5'])):
                        fx.add_failure(row, clause, 'ensures', c01.replay_args(rec), '[HDF5 output] ' + observed)
                elif rec.get('results_hdf5_error'):
                    fx.add_failure(row, CL_PROB, 'ensures', c01.replay_args(rec),
                                   '[HDF5 output] cannot be read back: ' + rec['results_hdf5_error'])
            except Exception:   # noqa
                fx.add_error(row, traceback.format_exc()[-1500:])
        row['bound'] += f"; level-records seen: {json.dumps(stats, sort_keys=True)}"
        if row['accepted'] and (not stats.get('with_runners_up') or not stats.get('single_child_levels')
                                or not stats.get('inferred_levels')):
            fx.add_error(row, f"vacuity guard: generated outputs never exercised some clause: {stats}")
    except BaseException:   # noqa
        fx.add_error(row, traceback.format_exc()[-2000:])
    return [fx.finish_row(row)]
