"""C08 bounded stand-in at the level of whole runs: the marker table the output reports
(`marker_genes`) against the definition in the property statement, for every combination of
flatten / drop_level, with a query that lacks some of the listed markers and a `min_markers`
large enough to force the ancestor fall-back.

For a run on taxonomy T' (T after drop_level), marker table M, query genes Q, minimum m:
  * not flattened, parent P of T' with >= 2 children:  usable(P) = M[P] & Q (listed order irrelevant);
    reported(P) >= usable(P); reported(P) <= (M[P] + lists of P's ancestors + root list) & Q;
    if |usable(P)| >= m then reported(P) == usable(P); otherwise |reported(P)| >= min(m, what the
    ancestors and the root can supply);
  * parents with one child report no markers;
  * flattened: the root reports exactly (union of every list of M) & Q and nothing else is reported.
The per-function clauses (nearest ancestor first, stop rule, error cases) are the proved contracts
of `validate_marker_lookup` / `create_marker_cache_from_specified_markers`; this module only checks
that a whole run reports what those functions are specified to compute (executions, bounded).
"""
import traceback

import numpy as np

from bounded import fixture as fx
from bounded import c01
from bounded import c06

ENTRY = c01.ENTRY

CL_USED = ("a parent with >= 2 children reports its listed markers that occur in the query, plus - only when fewer than "
           "min_markers remain - genes of its ancestors' / the root's lists, always restricted to the query")
CL_SINGLE = "a parent with a single child reports no markers"
CL_FLAT = "flatten: the root reports exactly the union of every list of the marker table restricted to the query genes"
CL_KEYS = "the reported table has exactly one entry per parent of the taxonomy the run used (root included)"
CL_RUNS = ("a table whose root keeps a usable marker (all listed genes being reference genes) is mapped without error, "
           "whatever the node names, flatten / drop_level and min_markers")


def _grp(parent):
    return 'None' if parent is None else f'{parent[0]}/{parent[1]}'


def _expected_parents(spec):
    """parents of the tree described by `spec`: None + every non-leaf node -> list of children"""
    h = spec['hierarchy']
    out = {None: list(spec[h[0]]) if isinstance(spec[h[0]], (list, dict)) else []}
    out[None] = list(spec[h[0]].keys()) if isinstance(spec[h[0]], dict) else list(spec[h[0]])
    for lv in h[:-1]:
        for node, kids in spec[lv].items():
            out[(lv, node)] = list(kids)
    return out


def _ancestors(spec, parent):
    """ancestor groups of a parent, nearest first, root last"""
    h = spec['hierarchy']
    if parent is None:
        return []
    out = []
    lv, node = parent
    k = h.index(lv)
    while k > 0:
        up = h[k - 1]
        for p, kids in spec[up].items():
            if node in kids:
                out.append((up, p))
                node = p
                break
        k -= 1
    return out + [None]


def _task(task):
    out = []
    with fx.scratch() as d:
        try:
            world = fx.build_world(d, task['seed'], **task['world'])
        except BaseException as e:   # noqa
            return [dict(status='harness-error', error='world build: ' + fx.package_error_text(e) +
                         traceback.format_exc()[-800:])]
        wa = dict(seed=task['seed'], **task['world'])
        rng = np.random.default_rng([task['seed'], 808])
        table = {k: list(v) for k, v in world.marker_lookup.items()}
        genes = list(world.query_gene_names)
        X = world.query_X if world.query_normalization == 'raw' else fx.to_log2cpm(world.query_X)
        # a second query lacking about a third of the listed markers (never all of the root's)
        listed = sorted({g for v in table.values() for g in v})
        root = [g for g in table.get('None', []) if g in genes]
        drop = set(rng.choice(listed, max(1, len(listed) // 3), replace=False).tolist()) if listed else set()
        if root and all(g in drop for g in root):
            drop.discard(root[0])
        keep = [i for i, g in enumerate(genes) if g not in drop]
        thin_genes = [genes[i] for i in keep]
        thin_path = fx.write_query(world, X[:, keep], list(world.query_cell_ids), thin_genes,
                                   encoding=task['world'].get('encoding', 'dense'))
        h = world.hierarchy

        def emit(clause, detail, status, observed):
            out.append(dict(clause=clause, status=status, observed=observed, args=dict(build_world=wa, run=detail)))

        variants = [(None, False)] + [(lv, False) for lv in h[:-1]] + [(None, True)] + [(lv, True) for lv in h[:-1]]
        for qname, qpath, qgenes in (('full', world.query_path, genes), ('thinned', thin_path, thin_genes)):
            Q = set(qgenes)
            for m in task['min_markers']:
                for drop_level, flatten in variants:
                    detail = dict(query=qname, missing_genes=sorted(drop) if qname == 'thinned' else [],
                                  min_markers=m, drop_level=drop_level, flatten=flatten)
                    try:
                        blob, _ = fx.run_mapping_world(world, fx.mapping_config(
                            world, query_path=qpath, drop_level=drop_level, flatten=flatten, min_markers=m,
                            bootstrap_iteration=2, n_processors=1, chunk_size=50))
                    except Exception as e:   # noqa
                        if not fx.escaped_from_package(e):
                            emit(CL_KEYS, detail, 'harness-error', traceback.format_exc()[-900:])
                        else:
                            # by construction the root keeps >= 1 usable marker and every listed gene is a
                            # reference gene, so the ancestor fall-back can always supply a parent: no error
                            # outcome of the property applies to these runs
                            emit(CL_RUNS, detail, 'ok', fx.package_error_text(e, 300))
                        continue
                    emit(CL_RUNS, detail, 'ok', None)
                    rep = blob.get('marker_genes')
                    if not isinstance(rep, dict):
                        emit(CL_KEYS, detail, 'ok', f"output has no marker_genes table: {type(rep).__name__}")
                        continue
                    rep = {k: list(v) for k, v in rep.items() if k not in ('metadata', 'log')}
                    if flatten:
                        union = set()
                        for v in table.values():
                            union |= set(v)
                        want = sorted(union & Q)
                        got = sorted(rep.get('None', []))
                        msg = None
                        if got != want:
                            msg = (f"root reports {len(got)} genes, union of all lists restricted to the query has "
                                   f"{len(want)}; missing {sorted(set(want) - set(got))[:6]} extra {sorted(set(got) - set(want))[:6]}")
                        emit(CL_FLAT, detail, 'ok', msg)
                        extra = {k: v for k, v in rep.items() if k != 'None' and len(v) > 0}
                        emit(CL_KEYS, detail, 'ok',
                             f"flattened run reports markers for non-root parents: {sorted(extra)[:4]}" if extra else None)
                        continue
                    spec = world.spec if drop_level is None else fx.spec_without_level(world.spec, drop_level)
                    spec = fx.normalise_spec(spec)
                    parents = _expected_parents(spec)
                    want_keys = {_grp(p) for p in parents}
                    msg = None
                    if set(rep) != want_keys:
                        msg = (f"reported groups {sorted(rep)[:8]} != parents of the run's taxonomy {sorted(want_keys)[:8]}")
                    emit(CL_KEYS, detail, 'ok', msg)
                    msg_u = msg_s = None
                    for p, kids in parents.items():
                        got = rep.get(_grp(p))
                        if got is None:
                            continue
                        if len(kids) < 2:
                            if len(got) and msg_s is None:
                                msg_s = f"{_grp(p)} has the single child {kids} but reports {got[:5]}"
                            continue
                        usable = [g for g in table.get(_grp(p), []) if g in Q]
                        pool = set(usable)
                        for a in _ancestors(spec, p):
                            pool |= {g for g in table.get(_grp(a), []) if g in Q}
                        if msg_u is None:
                            if len(set(got)) != len(got):
                                msg_u = f"{_grp(p)} reports a gene twice: {got}"
                            elif not set(usable) <= set(got):
                                msg_u = f"{_grp(p)}: listed markers present in the query but not reported: {sorted(set(usable) - set(got))[:6]}"
                            elif not set(got) <= pool:
                                msg_u = (f"{_grp(p)}: reports genes that are in none of its own / its ancestors' lists "
                                         f"restricted to the query: {sorted(set(got) - pool)[:6]}")
                            elif len(set(usable)) >= m and set(got) != set(usable):
                                msg_u = (f"{_grp(p)}: {len(set(usable))} listed markers are in the query (min_markers={m}) "
                                         f"yet {sorted(set(got) - set(usable))[:6]} were added")
                            elif len(set(usable)) < m and len(got) < min(m, len(pool)):
                                msg_u = (f"{_grp(p)}: only {len(got)} genes reported although its ancestors could bring "
                                         f"it to {min(m, len(pool))} (min_markers={m})")
                    emit(CL_USED, detail, 'ok', msg_u)
                    emit(CL_SINGLE, detail, 'ok', msg_s)
    return out


def tasks_for(tier, seed):
    quick = tier == 'quick'
    shapes = ['d3_bal', 'd3_chain', 'd2_single_child', 'd3_reuse', 'd3_slash'] if quick else \
        ['d3_bal', 'd3_chain', 'd2_single_child', 'd3_reuse', 'd3_slash', 'd2_bal', 'd3_mid_single', 'd2_reuse', 'd1_four']
    encs = ['dense', 'csr', 'csc']
    out = []
    for i, s in enumerate(shapes):
        out.append(dict(seed=int(seed) + i, world=dict(taxonomy=s, encoding=encs[(i + int(seed)) % 3], n_query=6),
                        min_markers=[1, 6] if quick else [1, 3, 6, 40]))
    return out


def run(tier='quick', seed=0, jobs=1):
    seed = int(seed or 0)
    clauses = [CL_USED, CL_SINGLE, CL_FLAT, CL_KEYS, CL_RUNS]
    bound = ("%d taxonomy shapes (depth 1-3, single-child parents, labels reused across levels) x {full query, query lacking "
             "a third of the listed markers} x min_markers %s x {no reduction, every droppable level, flatten, flatten + "
             "every droppable level}; 6 query cells" % ((5, '{1, 6}') if tier == 'quick' else (9, '{1, 3, 6, 40}')))
    row = fx.new_row(ENTRY, 'seeded-random', bound, clauses)
    try:
        rows = {c: row for c in clauses}
        results = fx.parallel_map(_task, tasks_for(tier, seed), jobs)
        c06.collect(rows, results, row)
    except BaseException:   # noqa
        fx.add_error(row, traceback.format_exc()[-2000:])
    return [fx.finish_row(row)]
