"""Bounded stand-in for C13 (never counted as proved): on-disk sparse transposition and reshaping.

The deductive part of C13 lives in contracts/c_csc_to_csr.py, c_csc_to_csr_parallel.py,
c_sparse_utils.py, c_h5_utils.py, c_anndata_utils.py (block / chunk stepping, pointer arithmetic,
h5py chunk pre-conditions).  What stays bounded is the *fill pass* of the transposition
(argsort / unique / searchsorted with the next-free-slot table) and the file-level plumbing; this
module executes the REAL functions on tiny inputs and compares with the same operation done in
memory by scipy / numpy:

  transpose-serial     transpose_sparse_matrix_on_disk: every sparse pattern <= 3x3 (682 patterns)
                       x {with, without value array} x every indices_slice x memory budgets;
                       matrices with > 100 stored entries under the smallest budget so that the
                       enforced minimum chunk sizes (100) are crossed; h5py handles and numpy handles.
                       thorough tier: every 4x4 pattern (65 536) as well.
                       Output must be *exactly* scipy's canonical CSR of the (sliced) matrix:
                       pointer array, sorted unique minor indices, values at transposed positions.
  transpose-parallel   transpose_sparse_matrix_on_disk_v2 with 1-4 workers
  csc-to-csr           csc_to_csr_on_disk on an h5 group (the C05 CSC path)
  amalgamate           amalgamate_csr_to_x == np.vstack of the pieces (pieces without entries too)
  h5-copy              copy_h5_excluding_data with small max_elements == the source, minus exclusions
  h5ad-reshape         shuffle_csr_h5ad_rows / pivot_csr_h5ad / subset_csc_h5ad_columns /
                       copy_layer_to_x == the same operation in memory (all-zero matrices included)

Every file is created under one tempfile.mkdtemp directory in /tmp which is removed afterwards.
"""
import contextlib
import io
import itertools
import os
import random
import shutil
import tempfile
import time
import traceback
import warnings

import numpy as np

FORM_EXH = 'small-scope-exhaustive'
FORM_RND = 'seeded-random over explicit boundary classes'


def _row(function, form, bound):
    return dict(function=function, form=form, bound=bound, cases=0, accepted=0, distinct=0,
                failures=[], error=None, _seen=set())


def _fail(row, clause, kind, args, observed):
    if len(row['failures']) < 6:
        row['failures'].append(dict(clause=clause, kind=kind, args=repr(args)[:1200],
                                    observed=repr(observed)[:800]))


def _done(row):
    row['distinct'] = len(row.pop('_seen'))
    return row


def _note(row, key):
    row['cases'] += 1
    row['accepted'] += 1
    row['_seen'].add(key)


@contextlib.contextmanager
def _quiet():
    with contextlib.redirect_stdout(io.StringIO()), warnings.catch_warnings():
        warnings.simplefilter('ignore')
        yield


def _matrix_from_bits(r, c, bits):
    """pattern -> matrix whose stored values are pairwise distinct (position is checkable)"""
    a = np.zeros((r, c))
    k = 0
    for i in range(r):
        for j in range(c):
            if bits >> (i * c + j) & 1:
                k += 1
                a[i, j] = k + 0.5
    return a


def _expected_csr(a):
    import scipy.sparse as sp
    m = sp.csr_matrix(a)
    m.sort_indices()
    return m.indptr.astype(np.int64), m.indices.astype(np.int64), m.data


def _read_out(path, with_data):
    import h5py
    with h5py.File(path, 'r') as f:
        out = dict(indptr=f['indptr'][()], indices=f['indices'][()])
        out['data'] = f['data'][()] if with_data else None
        out['has_data'] = 'data' in f
    return out


def _compare(out, a_exp, with_data):
    """list of (clause, observed) the written CSR arrays violate against the dense matrix a_exp"""
    bad = []
    ptr, idx, dat = _expected_csr(a_exp)
    if len(out['indptr']) != len(ptr) or not np.array_equal(out['indptr'].astype(np.int64), ptr):
        bad.append(('pointer array == scipy transpose (monotone, ends at nnz)', out['indptr'].tolist()))
    if not np.array_equal(out['indices'].astype(np.int64), idx):
        bad.append(('minor indices sorted, unique, == scipy transpose', out['indices'].tolist()))
    if with_data:
        if out['data'] is None or not np.array_equal(out['data'], dat):
            bad.append(('stored values at their transposed positions', None if out['data'] is None
                        else out['data'].tolist()))
    elif out['has_data']:
        bad.append(('no value array is written when none is given', 'data present'))
    return bad


# ---------------------------------------------------------------------------------------------
# serial transposition
# ---------------------------------------------------------------------------------------------
def _run_serial(a, with_data, max_gb, sl, root, h5_handles, tag):
    """a: dense matrix (rows x cols) given to the function in CSC form; returns failures"""
    import h5py
    import scipy.sparse as sp
    from cell_type_mapper.utils.csc_to_csr import transpose_sparse_matrix_on_disk
    m = sp.csc_matrix(a)
    m.sort_indices()
    out_path = os.path.join(root, f'out_{tag}.h5')
    exp = a if sl is None else a[sl[0]:sl[1], :]
    args = dict(matrix=a.tolist(), with_data=with_data, max_gb=max_gb, indices_slice=sl,
                h5_handles=h5_handles)
    try:
        if h5_handles:
            src_path = os.path.join(root, f'src_{tag}.h5')
            with h5py.File(src_path, 'w') as f:
                f.create_dataset('data', data=m.data)
                f.create_dataset('indices', data=m.indices)
                f.create_dataset('indptr', data=m.indptr)
            with h5py.File(src_path, 'r') as f, _quiet():
                transpose_sparse_matrix_on_disk(
                    indices_handle=f['indices'], indptr_handle=f['indptr'],
                    data_handle=f['data'] if with_data else None, indices_max=a.shape[0],
                    max_gb=max_gb, output_path=out_path, verbose=False, indices_slice=sl)
            os.unlink(src_path)
        else:
            with _quiet():
                transpose_sparse_matrix_on_disk(
                    indices_handle=m.indices, indptr_handle=m.indptr,
                    data_handle=m.data if with_data else None, indices_max=a.shape[0],
                    max_gb=max_gb, output_path=out_path, verbose=False, indices_slice=sl)
        out = _read_out(out_path, with_data)
    except Exception as e:   # noqa
        return [dict(clause='transposition terminates without error', kind='unexpected-exception',
                     args=args, observed=f"{type(e).__name__}: {e}")]
    finally:
        if os.path.exists(out_path):
            os.unlink(out_path)
    return [dict(clause=c, kind='ensures', args=args, observed=o) for c, o in _compare(out, exp, with_data)]


def _slices(n):
    return [None] + [(a, b) for a in range(n) for b in range(a + 1, n + 1)]


def serial_rows(tier, seed, root, budget_s):
    rng = random.Random(seed * 1009 + 13)
    t0 = time.time()
    exh = _row('cell_type_mapper.utils.csc_to_csr.transpose_sparse_matrix_on_disk', FORM_EXH,
               'every sparse pattern <= 3x3 (682) x {value array, none} x every indices_slice x '
               'budgets {1e-9, 1} GB' + ('; every 4x4 pattern (65536) with value array' if tier == 'thorough' else
                                         ' (quick: slices and the second budget on every 3rd pattern)'))
    n = 0
    shapes = [(r, c) for r in (1, 2, 3) for c in (1, 2, 3)]
    for r, c in shapes:
        for bits in range(2 ** (r * c)):
            a = _matrix_from_bits(r, c, bits)
            n += 1
            full = tier == 'thorough' or n % 3 == 0
            for with_data in (True, False):
                combos = [(1e-9, None)]
                if full:
                    combos = [(gb, sl) for gb in (1e-9, 1.0) for sl in _slices(r)]
                for gb, sl in combos:
                    fails = _run_serial(a, with_data, gb, sl, root, h5_handles=(bits % 5 == 0), tag='s')
                    _note(exh, (r, c, bits, with_data, gb, sl))
                    for f in fails:
                        _fail(exh, **f)
    if tier == 'thorough':
        for bits in range(2 ** 16):
            a = _matrix_from_bits(4, 4, bits)
            fails = _run_serial(a, True, 1e-9, None, root, h5_handles=False, tag='s4')
            _note(exh, (4, 4, bits))
            for f in fails:
                _fail(exh, **f)
            if time.time() - t0 > budget_s * 6:
                exh['bound'] += f' [4x4 stopped after {bits + 1} patterns: time budget]'
                break
    big = _row('cell_type_mapper.utils.csc_to_csr.transpose_sparse_matrix_on_disk', FORM_RND,
               'random matrices up to 40x30 with 101-700 stored entries, budget 1e-9 GB (both enforced '
               'minimum chunk sizes of 100 are crossed), with / without value array, random indices_slice; '
               'block-diagonal matrices 32x32-50x50 with float64 values above 2**24 at budgets {1e-9,1e-7,1e-6,1}')
    n_big = 12 if tier == 'quick' else 150
    for k in range(n_big):
        r, c = rng.randint(8, 40), rng.randint(6, 30)
        dens = rng.choice([0.3, 0.6, 0.9])
        a = np.zeros((r, c))
        v = 0
        for i in range(r):
            for j in range(c):
                if rng.random() < dens:
                    v += 1
                    a[i, j] = v
        if rng.random() < 0.3:
            a[rng.randrange(r), :] = 0     # an empty slice
        if rng.random() < 0.3:
            a[:, rng.randrange(c)] = 0
        sl = None
        if rng.random() < 0.5:
            lo = rng.randint(0, r - 1)
            sl = (lo, rng.randint(lo + 1, r))
        with_data = rng.random() < 0.7
        fails = _run_serial(a, with_data, rng.choice([1e-9, 1e-9, 3e-6]), sl, root,
                            h5_handles=rng.random() < 0.5, tag='b')
        _note(big, (k, int((a != 0).sum())))
        for f in fails:
            _fail(big, **f)
    # structured sparsity: block-diagonal matrices (whole load chunks hold no entry of a block of
    # slices) and values that single precision cannot hold, at budgets from tiny to ample
    for k in range(2 if tier == 'quick' else 10):
        nb = rng.choice([4, 5])
        bs = rng.choice([8, 10])
        a = np.zeros((nb * bs, nb * bs))
        v = 2 ** 24 + 1
        for b0 in range(0, nb * bs, bs):
            for i in range(b0, b0 + bs):
                for j in range(b0, b0 + bs):
                    if k % 2 == 0 or rng.random() < 0.6:
                        v += 2
                        a[i, j] = v + 1.0 / 3.0
        for gb in (1e-9, 1e-7, 1e-6, 1.0):
            fails = _run_serial(a, True, gb, None, root, h5_handles=False, tag='bd')
            _note(big, ('block-diagonal', k, gb))
            for f in fails:
                _fail(big, **f)
    return [_done(exh), _done(big)]


# ---------------------------------------------------------------------------------------------
# parallel transposition, csc_to_csr_on_disk
# ---------------------------------------------------------------------------------------------
def parallel_rows(tier, seed, root):
    import h5py
    import scipy.sparse as sp
    from cell_type_mapper.utils.csc_to_csr_parallel import transpose_sparse_matrix_on_disk_v2
    from cell_type_mapper.utils.csc_to_csr import csc_to_csr_on_disk
    rng = random.Random(seed * 7 + 5)
    par = _row('cell_type_mapper.utils.csc_to_csr_parallel.transpose_sparse_matrix_on_disk_v2', FORM_RND,
               'patterns <= 4x4 incl. all-zero / single entry / dense, 1-4 workers (more workers than '
               'slices too), with / without value array')
    fixed = [np.zeros((3, 4)), np.diag([5.0, 0, 0, 0]), np.diag([5.0, 0, 0, 2.0]), np.ones((2, 3)),
             np.array([[0, 1.5], [0, 0], [2.5, 0]]), np.array([[7.0]]), np.zeros((1, 1))]
    n_rnd = 10 if tier == 'quick' else 120
    mats = list(fixed) + [_matrix_from_bits(r, c, rng.randrange(2 ** (r * c)))
                          for r, c in [(rng.randint(1, 4), rng.randint(1, 4)) for _ in range(n_rnd)]]
    for k, a in enumerate(mats):
        n_proc = [1, 2, 3, 4][k % 4]
        with_data = k % 3 != 2
        m = sp.csr_matrix(a)     # CSR in, CSC (= CSR of the transpose) out
        m.sort_indices()
        src = os.path.join(root, 'p_src.h5')
        out = os.path.join(root, 'p_out.h5')
        args = dict(matrix=a.tolist(), n_processors=n_proc, with_data=with_data)
        try:
            with h5py.File(src, 'w') as f:
                f.create_dataset('data', data=m.data)
                f.create_dataset('indices', data=m.indices)
                f.create_dataset('indptr', data=m.indptr)
            with _quiet():
                transpose_sparse_matrix_on_disk_v2(
                    h5_path=src, indices_tag='indices', indptr_tag='indptr',
                    data_tag='data' if with_data else None, indices_max=a.shape[1], max_gb=1,
                    output_path=out, tmp_dir=root, n_processors=n_proc)
            got = _read_out(out, with_data)
            for c, o in _compare(got, a.T, with_data):
                _fail(par, c, 'ensures', args, o)
            left = [p for p in os.listdir(root) if p not in ('p_src.h5', 'p_out.h5')]
            if left:
                _fail(par, 'scratch directory of the parallel transposition is removed', 'ensures', args, left)
        except Exception as e:   # noqa
            _fail(par, 'parallel transposition terminates without error', 'unexpected-exception', args,
                  f"{type(e).__name__}: {e}")
        finally:
            for p in (src, out):
                if os.path.exists(p):
                    os.unlink(p)
        _note(par, (k, n_proc, with_data))
    c2c = _row('cell_type_mapper.utils.csc_to_csr.csc_to_csr_on_disk', FORM_RND,
               'CSC groups of matrices <= 4x4 (all-zero included), with / without value array')
    for k, a in enumerate(mats):
        with_data = k % 2 == 0
        m = sp.csc_matrix(a)
        m.sort_indices()
        src = os.path.join(root, 'c_src.h5')
        out = os.path.join(root, 'c_out.h5')
        args = dict(matrix=a.tolist(), use_data_array=with_data)
        try:
            with h5py.File(src, 'w') as f:
                g = f.create_group('X')
                g.create_dataset('data', data=m.data)
                g.create_dataset('indices', data=m.indices)
                g.create_dataset('indptr', data=m.indptr)
            with h5py.File(src, 'r') as f, _quiet():
                csc_to_csr_on_disk(csc_group=f['X'], csr_path=out, array_shape=a.shape, max_gb=1,
                                   use_data_array=with_data)
            got = _read_out(out, with_data)
            for c, o in _compare(got, a, with_data):
                _fail(c2c, c, 'ensures', args, o)
        except Exception as e:   # noqa
            _fail(c2c, 'csc_to_csr_on_disk terminates without error', 'unexpected-exception', args,
                  f"{type(e).__name__}: {e}")
        finally:
            for p in (src, out):
                if os.path.exists(p):
                    os.unlink(p)
        _note(c2c, (k, with_data))
    return [_done(par), _done(c2c)]


# ---------------------------------------------------------------------------------------------
# amalgamate_csr_to_x, copy_h5_excluding_data
# ---------------------------------------------------------------------------------------------
def amalgamate_rows(tier, seed, root):
    import h5py
    import scipy.sparse as sp
    from cell_type_mapper.utils.anndata_utils import amalgamate_csr_to_x
    rng = random.Random(seed * 31 + 3)
    row = _row('cell_type_mapper.utils.anndata_utils.amalgamate_csr_to_x', FORM_RND,
               '1-4 CSR pieces of 0-3 rows x 1-4 columns, pieces / whole selection without entries included')
    n = 40 if tier == 'quick' else 500
    for k in range(n):
        n_cols = rng.randint(1, 4)
        pieces = []
        for _ in range(rng.randint(1, 4)):
            r = rng.randint(1, 3)
            a = _matrix_from_bits(r, n_cols, rng.choice([0, 0, rng.randrange(2 ** (r * n_cols))]))
            pieces.append(a)
        if k == 0:
            pieces = [np.zeros((2, 3))]
            n_cols = 3
        paths = []
        dst = os.path.join(root, 'am_dst.h5')
        args = dict(pieces=[p.tolist() for p in pieces])
        try:
            for i, a in enumerate(pieces):
                m = sp.csr_matrix(a)
                m.sort_indices()
                p = os.path.join(root, f'am_{i}.h5')
                with h5py.File(p, 'w') as f:
                    f.create_dataset('data', data=m.data)
                    f.create_dataset('indices', data=m.indices)
                    f.create_dataset('indptr', data=m.indptr)
                paths.append(p)
            exp = np.vstack(pieces)
            with _quiet():
                amalgamate_csr_to_x(paths, dst, exp.shape)
            with h5py.File(dst, 'r') as f:
                g = f['X']
                got = sp.csr_matrix((g['data'][()], g['indices'][()], g['indptr'][()]), shape=exp.shape).toarray()
                enc = g.attrs['encoding-type']
                shp = tuple(int(x) for x in g.attrs['shape'])
            if not np.array_equal(got, exp):
                _fail(row, 'written matrix == np.vstack(pieces)', 'ensures', args, got.tolist())
            if enc != 'csr_matrix' or shp != exp.shape:
                _fail(row, 'encoding-type csr_matrix and shape attribute of the stack', 'ensures', args, (enc, shp))
        except Exception as e:   # noqa
            _fail(row, 'amalgamate_csr_to_x terminates without error', 'unexpected-exception', args,
                  f"{type(e).__name__}: {e}")
        finally:
            for p in paths + [dst]:
                if os.path.exists(p):
                    os.unlink(p)
        _note(row, k)
    return [_done(row)]


def h5copy_rows(tier, seed, root):
    import h5py
    from cell_type_mapper.utils.h5_utils import copy_h5_excluding_data
    rng = random.Random(seed * 17 + 1)
    row = _row('cell_type_mapper.utils.h5_utils.copy_h5_excluding_data', FORM_RND,
               'files with chunked 1-D/2-D/3-D, unchunked and scalar datasets in nested groups, '
               'max_elements in {1,2,3,5,7,8,27,100000}, random exclusions')

    def collect(f):
        out = {}

        def visit(name, obj):
            if isinstance(obj, h5py.Dataset):
                out[name] = (obj[()], dict(obj.attrs), obj.chunks)
            else:
                out[name + '/'] = (None, dict(obj.attrs), None)
        f.visititems(visit)
        return out
    n = 24 if tier == 'quick' else 300
    for k in range(n):
        src = os.path.join(root, 'cp_src.h5')
        dst = os.path.join(root, 'cp_dst.h5')
        me = [1, 2, 3, 5, 7, 8, 27, 100000][k % 8]
        s1, s2, s3 = rng.randint(1, 7), (rng.randint(1, 5), rng.randint(1, 4)), (rng.randint(1, 3), 2, rng.randint(1, 3))
        with h5py.File(src, 'w') as f:
            d = f.create_dataset('a1', data=np.arange(s1) * 1.5, chunks=(rng.randint(1, s1),))
            d.attrs.create(name='note', data='x')
            f.create_dataset('grp/a2', data=np.arange(s2[0] * s2[1]).reshape(s2),
                             chunks=(rng.randint(1, s2[0]), rng.randint(1, s2[1])))
            f.create_dataset('grp/deep/a3', data=np.arange(s3[0] * s3[1] * s3[2]).reshape(s3), chunks=(1, 1, 1))
            f.create_dataset('grp/plain', data=np.arange(4))
            f.create_dataset('text', data='hello'.encode('utf-8'))
            f['grp'].attrs.create(name='g', data=3)
            f.create_dataset('other/skip_me', data=np.arange(3), chunks=(1,))
            if k % 3 == 0:
                # resizable and (still) empty, chunks larger than the shape: what anndata writes for
                # the data / indices arrays of a sparse matrix without stored values (D-10)
                f.create_dataset('grp/resizable_empty', shape=(0,), maxshape=(None,), chunks=(4,), dtype=float)
                f.create_dataset('grp/resizable_short', data=np.arange(2.0), maxshape=(None,), chunks=(4,))
        ex_ds = rng.choice([None, ['grp/a2'], ['a1', 'grp/deep/a3']])
        ex_gr = rng.choice([None, ['other'], ['grp/deep']])
        args = dict(max_elements=me, excluded_datasets=ex_ds, excluded_groups=ex_gr, shapes=(s1, s2, s3))
        try:
            with _quiet():
                copy_h5_excluding_data(src, dst, excluded_groups=ex_gr, excluded_datasets=ex_ds, max_elements=me)
            with h5py.File(src, 'r') as f:
                want = collect(f)
            with h5py.File(dst, 'r') as f:
                got = collect(f)
            for name in list(want):
                if ex_ds and name in ex_ds:
                    want.pop(name)
                elif ex_gr and any(name == g + '/' or name.startswith(g + '/') for g in ex_gr):
                    want.pop(name)
            if set(got) != set(want):
                _fail(row, 'copied names == source names minus exclusions', 'ensures', args,
                      (sorted(got), sorted(want)))
            for name in set(got) & set(want):
                gv, ga, gc = got[name]
                wv, wa, wc = want[name]
                same = (gv is None and wv is None) or np.array_equal(gv, wv)
                if not same or ga.keys() != wa.keys() or gc != wc:
                    _fail(row, 'every copied dataset has the stored values, attributes and chunk layout',
                          'ensures', dict(args, name=name), (None if gv is None else np.asarray(gv).tolist()))
        except Exception as e:   # noqa
            _fail(row, 'copy_h5_excluding_data terminates without error', 'unexpected-exception', args,
                  f"{type(e).__name__}: {e}")
        finally:
            for p in (src, dst):
                if os.path.exists(p):
                    os.unlink(p)
        _note(row, k)
    return [_done(row)]


# ---------------------------------------------------------------------------------------------
# h5ad level: shuffle rows, pivot, subset columns, copy layer to X
# ---------------------------------------------------------------------------------------------
def _write_h5ad(path, a, encoding, layer=None):
    import anndata
    import pandas as pd
    import scipy.sparse as sp
    obs = pd.DataFrame({'v': np.arange(a.shape[0])}, index=[f'c{i}' for i in range(a.shape[0])])
    var = pd.DataFrame({'w': np.arange(a.shape[1])}, index=[f'g{i}' for i in range(a.shape[1])])
    conv = {'dense': lambda x: x, 'csr': sp.csr_matrix, 'csc': sp.csc_matrix}[encoding]
    if layer is None:
        ad = anndata.AnnData(X=conv(a), obs=obs, var=var)
    else:
        ad = anndata.AnnData(X=conv(np.zeros_like(a)), obs=obs, var=var, layers={layer: conv(a)})
    ad.write_h5ad(path)


def _read_h5ad(path):
    import anndata
    ad = anndata.read_h5ad(path)
    x = ad.X
    if not isinstance(x, np.ndarray):
        x = x.toarray()
    return np.asarray(x), list(ad.obs.index), list(ad.var.index)


def h5ad_rows(tier, seed, root):
    import h5py
    from cell_type_mapper.utils.anndata_utils import (
        shuffle_csr_h5ad_rows, pivot_csr_h5ad, subset_csc_h5ad_columns, copy_layer_to_x)
    rng = random.Random(seed * 101 + 9)
    rows = {
        'shuffle': _row('cell_type_mapper.utils.anndata_utils.shuffle_csr_h5ad_rows', FORM_RND,
                        'CSR h5ad files <= 4x4 (all-zero, empty rows included), random permutations, compression on/off'),
        'pivot': _row('cell_type_mapper.utils.anndata_utils.pivot_csr_h5ad', FORM_RND,
                      'CSR h5ad files <= 4x4 (all-zero included), 1-3 workers'),
        'subset': _row('cell_type_mapper.utils.anndata_utils.subset_csc_h5ad_columns', FORM_RND,
                       'CSC h5ad files <= 4x4 (all-zero included), random non-empty column subsets in random order'),
        'copy': _row('cell_type_mapper.utils.anndata_utils.copy_layer_to_x', FORM_RND,
                     'dense / CSR / CSC h5ad files <= 4x4, matrix in X or in a named layer'),
    }
    n = 10 if tier == 'quick' else 100
    for k in range(n):
        r, c = rng.randint(1, 4), rng.randint(1, 4)
        a = _matrix_from_bits(r, c, rng.choice([0, rng.randrange(2 ** (r * c)), rng.randrange(2 ** (r * c))]))
        if k == 0:
            a = np.zeros((3, 2))
            r, c = 3, 2
        src = os.path.join(root, 'ad_src.h5ad')
        dst = os.path.join(root, 'ad_dst.h5ad')

        def attempt(row, what, args, fn, check):
            try:
                if os.path.exists(dst):
                    os.unlink(dst)
                with _quiet():
                    fn()
                x, obs, var = _read_h5ad(dst)
                for clause, ok, seen in check(x, obs, var):
                    if not ok:
                        _fail(row, clause, 'ensures', args, seen)
            except Exception as e:   # noqa
                _fail(row, f'{what} terminates without error', 'unexpected-exception', args,
                      f"{type(e).__name__}: {e}")
            _note(row, (k, what))

        # shuffle
        _write_h5ad(src, a, 'csr')
        order = list(range(r))
        rng.shuffle(order)
        comp = k % 2 == 0
        attempt(rows['shuffle'], 'shuffle_csr_h5ad_rows', dict(matrix=a.tolist(), new_row_order=order, compression=comp),
                lambda: shuffle_csr_h5ad_rows(src, dst, np.array(order), compression=comp),
                lambda x, obs, var: [('X of the new file == X[new_row_order]', np.array_equal(x, a[order]), x.tolist()),
                                     ('obs follows the rows', obs == [f'c{i}' for i in order], obs)])
        # pivot
        n_proc = 1 + k % 3
        attempt(rows['pivot'], 'pivot_csr_h5ad', dict(matrix=a.tolist(), n_processors=n_proc),
                lambda: pivot_csr_h5ad(src, dst, tmp_dir=root, n_processors=n_proc, max_gb=1, compression=comp),
                lambda x, obs, var: [('X of the CSC file == X of the CSR file', np.array_equal(x, a), x.tolist())])
        if os.path.exists(dst):
            with h5py.File(dst, 'r') as f:
                enc = f['X'].attrs.get('encoding-type') if 'X' in f else None
            if enc != 'csc_matrix':
                _fail(rows['pivot'], 'the pivoted file is CSC encoded', 'ensures', dict(matrix=a.tolist()), enc)
        # subset columns
        _write_h5ad(src, a, 'csc')
        cols = rng.sample(range(c), rng.randint(1, c))
        attempt(rows['subset'], 'subset_csc_h5ad_columns', dict(matrix=a.tolist(), chosen_columns=cols),
                lambda: subset_csc_h5ad_columns(src, dst, cols, compression=comp),
                lambda x, obs, var: [('X of the new file == X[:, sorted(chosen_columns)]',
                                      np.array_equal(x, a[:, sorted(cols)]), x.tolist()),
                                     ('var follows the columns', var == [f'g{j}' for j in sorted(cols)], var)])
        # copy layer to X
        enc = ['dense', 'csr', 'csc'][k % 3]
        layer = [None, 'raw'][(k // 3) % 2]
        _write_h5ad(src, a, enc, layer=layer)
        attempt(rows['copy'], 'copy_layer_to_x', dict(matrix=a.tolist(), encoding=enc, layer=layer or 'X'),
                lambda: copy_layer_to_x(src, dst, layer or 'X'),
                lambda x, obs, var: [('X of the new file == the requested layer', np.array_equal(x, a), x.tolist()),
                                     ('obs / var copied', obs == [f'c{i}' for i in range(r)] and
                                      var == [f'g{j}' for j in range(c)], (obs, var))])
        for p in (src, dst):
            if os.path.exists(p):
                os.unlink(p)
    return [_done(v) for v in rows.values()]


# ---------------------------------------------------------------------------------------------
def run(tier='quick', seed=0, jobs=1):
    import sys
    repo = os.environ.get('VERIF_REPO', '/repo')
    if os.path.join(repo, 'src') not in sys.path:
        sys.path.insert(0, os.path.join(repo, 'src'))
    root = tempfile.mkdtemp(prefix='verif_c13_', dir='/tmp')
    out = []
    try:
        for name, fn in (('serial', lambda: serial_rows(tier, seed, root, 40.0)),
                         ('parallel', lambda: parallel_rows(tier, seed, root)),
                         ('amalgamate', lambda: amalgamate_rows(tier, seed, root)),
                         ('h5copy', lambda: h5copy_rows(tier, seed, root)),
                         ('h5ad', lambda: h5ad_rows(tier, seed, root))):
            try:
                out.extend(fn())
            except BaseException as e:   # noqa
                if isinstance(e, (KeyboardInterrupt, SystemExit)):
                    raise
                out.append(dict(function=f'bounded.c13.{name}', form=FORM_RND, bound='', cases=0, accepted=0,
                                distinct=0, failures=[],
                                error=f"{type(e).__name__}: {e}\n{traceback.format_exc()[-1500:]}"))
    finally:
        shutil.rmtree(root, ignore_errors=True)
    return out


if __name__ == '__main__':
    import json
    import sys
    t0 = time.time()
    res = run(tier=sys.argv[1] if len(sys.argv) > 1 else 'quick', seed=0)
    for r_ in res:
        print(json.dumps({k: v for k, v in r_.items() if k != 'failures'})[:400])
        for f_ in r_['failures']:
            print('   FAIL', json.dumps(f_)[:700])
    print('wall %.1fs' % (time.time() - t0))
