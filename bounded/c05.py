"""Bounded stand-in for C05 (never counted as proved): row access through AnnDataRowIterator.

Deductive part of C05: contracts/c_anndata_iterator.py (chunk stepping, get_batch un-sorting),
c_sparse_utils.py (_load_sparse, _csr_to_dense, merge_csr, ...), c_csc_to_csr.py (CSC path).
This module drives the REAL iterator on tiny h5ad files written with anndata and compares with the
in-memory matrix:

  iterate      for every matrix of a fixed boundary family (empty rows, empty columns, a single row,
               a single column, no stored value at all, dense) x encoding {dense, CSR, CSC} x
               location {X, a named layer} x dtype x HDF5 chunk edge {default, 1, 2} x every
               row_chunk_size from 1 to n_rows + 1 (x memory budget for the CSC conversion):
               the chunks (r0, r1) are consecutive, start at 0, end at n_rows, are as long as
               requested except the last, every chunk equals matrix[r0:r1] exactly (values and
               shape), then StopIteration; n_rows attribute correct; scratch dir of the CSC path
               removed when the iterator is deleted
  get_chunk    every (r0, r1) with 0 <= r0 < r1 <= n_rows
  get_batch    every duplicate-free non-empty row list (all orders) for matrices with <= 4 rows,
               dense and sparse return forms
Files live under one tempfile.mkdtemp directory in /tmp, removed afterwards.
"""
import contextlib
import gc
import io
import itertools
import os
import random
import shutil
import tempfile
import time
import traceback
import warnings

import numpy as np

FORM = 'small-scope-exhaustive over a boundary family of matrices'

MATRICES = {
    'mixed-4x3': [[1, 0, 2], [0, 0, 0], [0, 3, 0], [4, 5, 6]],
    'all-zero-3x2': [[0, 0], [0, 0], [0, 0]],
    'single-row': [[0, 7, 0, 8]],
    'single-column': [[1], [0], [2]],
    'empty-column': [[1, 0, 2], [3, 0, 4]],
    'dense-2x2': [[1, 2], [3, 4]],
    'one-entry-last': [[0, 0], [0, 0], [0, 9]],
    'one-by-one-zero': [[0]],
    'five-rows': [[1, 0], [0, 0], [2, 3], [0, 0], [0, 4]],
}
DTYPES = [np.float32, np.float64, np.int32, np.uint16]


def _row(function, bound):
    return dict(function=function, form=FORM, bound=bound, cases=0, accepted=0, distinct=0,
                failures=[], error=None, _seen=set())


def _fail(row, clause, kind, args, observed):
    if len(row['failures']) < 6:
        row['failures'].append(dict(clause=clause, kind=kind, args=repr(args)[:1200],
                                    observed=repr(observed)[:800]))


def _done(row):
    row['distinct'] = len(row.pop('_seen'))
    return row


def _note(row, key):
    row['cases'] += 1
    row['accepted'] += 1
    row['_seen'].add(key)


@contextlib.contextmanager
def _quiet():
    with contextlib.redirect_stdout(io.StringIO()), warnings.catch_warnings():
        warnings.simplefilter('ignore')
        yield


def write_h5ad(path, a, encoding, layer, chunk_edge):
    import anndata
    import h5py
    import pandas as pd
    import scipy.sparse as sp
    obs = pd.DataFrame(index=[f'c{i}' for i in range(a.shape[0])])
    var = pd.DataFrame(index=[f'g{i}' for i in range(a.shape[1])])
    conv = {'dense': lambda x: x, 'csr': sp.csr_matrix, 'csc': sp.csc_matrix}[encoding]
    decoy = np.full(a.shape, 99, dtype=a.dtype)
    with warnings.catch_warnings():
        warnings.simplefilter('ignore')
        if layer is None:
            ad = anndata.AnnData(X=conv(a), obs=obs, var=var)
        else:
            ad = anndata.AnnData(X=conv(decoy), obs=obs, var=var, layers={layer: conv(a)})
        ad.write_h5ad(path)
    if chunk_edge is None:
        return
    key = 'X' if layer is None else f'layers/{layer}'
    with h5py.File(path, 'a') as f:
        names = [key] if encoding == 'dense' else [f'{key}/data', f'{key}/indices', f'{key}/indptr']
        for name in names:
            d = f[name]
            val, attrs = d[()], dict(d.attrs)
            if val.size == 0:
                continue
            chunks = tuple(max(1, min(chunk_edge, s)) for s in val.shape)
            del f[name]
            nd = f.create_dataset(name, data=val, chunks=chunks)
            for k, v in attrs.items():
                nd.attrs.create(name=k, data=v)


def _as_dense(x):
    if isinstance(x, np.ndarray):
        return x
    return x.toarray()


def check_iteration(row, a, name, encoding, layer, dtype, chunk_edge, size, max_gb, keep_open, root,
                    random_access=None):
    from cell_type_mapper.anndata_iterator.anndata_iterator import AnnDataRowIterator
    a = np.array(a, dtype=dtype)
    n_rows = a.shape[0]
    path = os.path.join(root, 'it.h5ad')
    tmp = os.path.join(root, 'it_tmp')
    os.makedirs(tmp, exist_ok=True)
    args = dict(matrix=name, encoding=encoding, layer=layer or 'X', dtype=np.dtype(dtype).name,
                h5_chunk_edge=chunk_edge, row_chunk_size=size, max_gb=max_gb, keep_open=keep_open)
    it = None
    try:
        write_h5ad(path, a, encoding, layer, chunk_edge)
        with _quiet():
            it = AnnDataRowIterator(path, row_chunk_size=size, layer=layer or 'X', tmp_dir=tmp,
                                    max_gb=max_gb, keep_open=keep_open)
            if int(it.n_rows) != n_rows:
                _fail(row, 'n_rows of the iterator == number of rows of the file', 'ensures', args, it.n_rows)
            expect_r0 = 0
            n_chunks = 0
            for chunk, r0, r1 in it:
                n_chunks += 1
                chunk = _as_dense(chunk)
                if r0 != expect_r0 or not (r0 < r1 <= n_rows):
                    _fail(row, 'chunks are consecutive, non-empty, inside the matrix', 'ensures', args, (r0, r1, expect_r0))
                    break
                if r1 - r0 != size and r1 != n_rows:
                    _fail(row, 'a chunk has the requested number of rows unless the matrix ends', 'ensures', args, (r0, r1))
                if chunk.shape != (r1 - r0, a.shape[1]) or not np.array_equal(chunk, a[r0:r1]):
                    _fail(row, 'chunk == stored rows r0:r1 exactly', 'ensures', dict(args, r0=r0, r1=r1), chunk.tolist())
                expect_r0 = r1
                if n_chunks > n_rows + 2:
                    _fail(row, 'iteration terminates', 'ensures', args, n_chunks)
                    break
            if expect_r0 != n_rows:
                _fail(row, 'every row is yielded exactly once (the chunks end at n_rows)', 'ensures', args, expect_r0)
            # random access on the same object
            pairs = [(r0, r1) for r0 in range(n_rows) for r1 in range(r0 + 1, n_rows + 1)]
            if random_access is not None:
                pairs = pairs[::max(1, len(pairs) // random_access)]
            for r0, r1 in pairs:
                    got = it.get_chunk(r0, r1)
                    if (got[1], got[2]) != (r0, r1) or not np.array_equal(_as_dense(got[0]), a[r0:r1]):
                        _fail(row, 'get_chunk(r0, r1) == stored rows r0:r1', 'ensures', dict(args, r0=r0, r1=r1),
                              _as_dense(got[0]).tolist())
    except Exception as e:   # noqa
        _fail(row, 'row iteration raises nothing', 'unexpected-exception', args,
              f"{type(e).__name__}: {e} | {traceback.format_exc().splitlines()[-3:]}")
    finally:
        it = None
        gc.collect()
        left = os.listdir(tmp)
        if left:
            _fail(row, 'scratch of the CSC conversion is removed with the iterator', 'ensures', args, left)
        shutil.rmtree(tmp, ignore_errors=True)
        if os.path.exists(path):
            os.unlink(path)
    _note(row, tuple(sorted((k, str(v)) for k, v in args.items())))


def check_batches(row, a, name, encoding, layer, dtype, root, sparse_flag):
    from cell_type_mapper.anndata_iterator.anndata_iterator import AnnDataRowIterator
    a = np.array(a, dtype=dtype)
    n_rows = a.shape[0]
    path = os.path.join(root, 'b.h5ad')
    tmp = os.path.join(root, 'b_tmp')
    os.makedirs(tmp, exist_ok=True)
    base = dict(matrix=name, encoding=encoding, layer=layer or 'X', sparse=sparse_flag)
    it = None
    try:
        write_h5ad(path, a, encoding, layer, None)
        with _quiet():
            it = AnnDataRowIterator(path, row_chunk_size=2, layer=layer or 'X', tmp_dir=tmp, keep_open=True)
            for r in range(1, n_rows + 1):
                for rows in itertools.permutations(range(n_rows), r):
                    rows = list(rows)
                    try:
                        got = _as_dense(it.get_batch(rows, sparse=sparse_flag))
                        if got.shape != (len(rows), a.shape[1]) or not np.array_equal(got, a[rows]):
                            _fail(row, 'get_batch(row_idx)[k] == stored row row_idx[k] (requested order)', 'ensures',
                                  dict(base, row_idx=rows), got.tolist())
                    except Exception as e:   # noqa
                        _fail(row, 'get_batch raises nothing for a duplicate-free non-empty row list',
                              'unexpected-exception', dict(base, row_idx=rows), f"{type(e).__name__}: {e}")
                    _note(row, (name, encoding, layer, sparse_flag, tuple(rows)))
    except Exception as e:   # noqa
        _fail(row, 'opening the file for batch access raises nothing', 'unexpected-exception', base,
              f"{type(e).__name__}: {e}")
    finally:
        it = None
        gc.collect()
        shutil.rmtree(tmp, ignore_errors=True)
        if os.path.exists(path):
            os.unlink(path)


def run(tier='quick', seed=0, jobs=1):
    import sys
    repo = os.environ.get('VERIF_REPO', '/repo')
    if os.path.join(repo, 'src') not in sys.path:
        sys.path.insert(0, os.path.join(repo, 'src'))
    rng = random.Random(seed * 53 + 5)
    root = tempfile.mkdtemp(prefix='verif_c05_', dir='/tmp')
    it_row = _row('cell_type_mapper.anndata_iterator.anndata_iterator.AnnDataRowIterator.__next__',
                  f'{len(MATRICES)} boundary matrices (<= 5x4: empty rows / columns, single row / column, no '
                  'stored value, dense) x {dense, CSR, CSC} x {X, layer} x every row_chunk_size 1..n_rows+1; '
                  'dtype, HDF5 chunk edge {default,1,2}, CSC budget {8e-9, 10} GB, keep_open '
                  + ('fully crossed' if tier == 'thorough' else 'rotated (each value with every matrix and encoding)'))
    gb_row = _row('cell_type_mapper.anndata_iterator.anndata_iterator.AnnDataRowIterator.get_batch',
                  'every duplicate-free non-empty row list in every order for the matrices with <= 4 rows '
                  'x {dense, CSR, CSC} x {X, layer}, dense and sparse return form')
    out = []
    try:
        try:
            k = 0
            for name, a in MATRICES.items():
                n_rows = len(a)
                for encoding in ('dense', 'csr', 'csc'):
                    for layer in (None, 'raw'):
                        for size in range(1, n_rows + 2):
                            if tier == 'thorough':
                                combos = [(dt, ce, gb, ko) for dt in DTYPES for ce in (None, 1, 2)
                                          for gb in (8e-9, 10) for ko in (True, False)]
                            else:
                                combos = [(DTYPES[k % 4], (None, 1, 2)[k % 3], (8e-9, 10)[k % 2], k % 5 != 0)]
                            for dt, ce, gb, ko in combos:
                                k += 1
                                check_iteration(it_row, a, name, encoding, layer, dt, ce, size, gb, ko, root)
            out.append(_done(it_row))
        except BaseException as e:   # noqa
            if isinstance(e, (KeyboardInterrupt, SystemExit)):
                raise
            it_row['error'] = f"{type(e).__name__}: {e}\n{traceback.format_exc()[-1500:]}"
            out.append(_done(it_row))
        # matrices with more than 100 stored values: the CSC -> CSR conversion then works through
        # several load chunks / output blocks at the smallest memory budgets (the enforced minimum
        # chunk sizes of 100 are crossed), which the <= 5x4 family above cannot reach
        big_row = _row('cell_type_mapper.anndata_iterator.anndata_iterator.AnnDataRowIterator.__next__',
                       'seeded random matrices 31x23 and 61x47 with 150-900 stored values (empty rows and '
                       'columns included) x {CSC, CSR, dense} x CSC budget {1e-7, 1e-5, 10} GB x '
                       'row_chunk_size {1, 13, n_rows, n_rows+5}; a block-diagonal 40x40 CSC matrix at budgets '
                       '{1e-9, 1e-7, 1e-6, 10}; float64 fractions and counts above 2**24 (int64, uint32) in all '
                       'three encodings')
        big_row['form'] = 'seeded-random'
        try:
            nprng = np.random.default_rng(seed * 7 + 3)
            for (nr, nc, dens) in ((31, 23, 0.3), (61, 47, 0.3)):
                a = nprng.integers(1, 50, size=(nr, nc)) * (nprng.random((nr, nc)) < dens)
                a[nr // 3, :] = 0
                a[:, nc // 2] = 0
                encs = ('csc', 'csr', 'dense') if tier == 'thorough' else ('csc',)
                for encoding in encs:
                    for gb in (1e-7, 1e-5, 10):
                        sizes = (1, 13, nr, nr + 5) if tier == 'thorough' or gb == 1e-7 else (13,)
                        for size in sizes:
                            check_iteration(big_row, a.tolist(), f'random-{nr}x{nc}', encoding, None, np.float32,
                                            None, size, gb, True, root, random_access=12)
            # structured sparsity: a block-diagonal matrix (whole groups of columns hold no entry for
            # a block of rows) at budgets small enough for several row blocks and load chunks
            bd = np.zeros((40, 40))
            for b0 in range(0, 40, 10):
                bd[b0:b0 + 10, b0:b0 + 10] = nprng.integers(1, 9, size=(10, 10)) * (nprng.random((10, 10)) < 0.55)
            for gb in (1e-9, 1e-7, 1e-6, 10):
                for size in ((7, 40) if tier == 'quick' else (1, 7, 40, 45)):
                    check_iteration(big_row, bd.tolist(), 'block-diagonal-40x40', 'csc', None, np.float32,
                                    None, size, gb, True, root, random_access=12)
            # values that single precision cannot hold: float64 fractions, counts above 2**24
            f64 = (nprng.random((12, 9)) * 1000.0 + 1.0 / 3.0) * (nprng.random((12, 9)) < 0.5)
            big_counts = (nprng.integers(2**24 + 1, 2**31 - 1, size=(12, 9)) | 1) * (nprng.random((12, 9)) < 0.5)
            for nm, mat, dt in (('float64-fractions', f64, np.float64), ('int64-large-counts', big_counts, np.int64),
                                ('uint32-large-counts', big_counts, np.uint32)):
                for encoding in ('csc', 'csr', 'dense'):
                    check_iteration(big_row, mat.tolist(), nm, encoding, None, dt, None, 5, 10, True, root,
                                    random_access=6)
            out.append(_done(big_row))
        except BaseException as e:   # noqa
            if isinstance(e, (KeyboardInterrupt, SystemExit)):
                raise
            big_row['error'] = f"{type(e).__name__}: {e}\n{traceback.format_exc()[-1500:]}"
            out.append(_done(big_row))
        try:
            j = 0
            for name, a in MATRICES.items():
                if len(a) > 4:
                    continue
                for encoding in ('dense', 'csr', 'csc'):
                    for layer in (None, 'raw'):
                        j += 1
                        check_batches(gb_row, a, name, encoding, layer, DTYPES[j % 4], root, sparse_flag=(j % 3 == 0))
            out.append(_done(gb_row))
        except BaseException as e:   # noqa
            if isinstance(e, (KeyboardInterrupt, SystemExit)):
                raise
            gb_row['error'] = f"{type(e).__name__}: {e}\n{traceback.format_exc()[-1500:]}"
            out.append(_done(gb_row))
    finally:
        shutil.rmtree(root, ignore_errors=True)
    return out


if __name__ == '__main__':
    import json
    import sys
    t0 = time.time()
    res = run(tier=sys.argv[1] if len(sys.argv) > 1 else 'quick', seed=0)
    for r_ in res:
        print(json.dumps({k: v for k, v in r_.items() if k != 'failures'})[:500])
        for f_ in r_['failures']:
            print('   FAIL', json.dumps(f_)[:900])
    print('wall %.1fs' % (time.time() - t0))
