"""C12 bounded stand-in: selected query markers cover every cluster pair as far as possible.

Tiny reference-marker tables (<= 4 leaves, <= 6 genes; dense, sparse, pairs without any marker,
pairs with fewer markers than the target in one or both directions) are written in the package's
own file layout (pair-major tables here, gene-major tables by the package's own
`add_sparse_by_gene_markers_to_file`), then the REAL `select_all_markers` is run (MarkerGeneArray
.from_cache_path, thinning to the query genes, per-parent down-sampling, `select_marker_genes_v2`).

Clauses (C12), checked per parent against a census computed from the generated dense tables:
  no duplicates; every gene occurs in the query (and in the reference); every gene is a reference
  marker of at least one leaf pair the parent must discriminate; a parent with nothing to
  discriminate gets none; for every relevant pair the number of selected genes that mark it is at
  least min(2 * n_per_utility, number of its reference markers available in the query); the
  selection is the same for 1 / 2 workers and for any behemoth threshold (full table vs
  down-sampled table).
"""
import itertools
import os
import json
import random

import numpy as np

from bounded.fixture import (scratch, quiet, parallel_map, new_row, add_failure, add_error,
                             note_case, finish_row)
from bounded.c11 import no_stderr

FN = 'cell_type_mapper.marker_selection.selection_pipeline.select_all_markers'

TREES = [
    # (hierarchy, {level: {parent: [children]}})   leaf level derived; <= 4 leaves
    (['cluster'], {}, ['c0', 'c1']),
    (['cluster'], {}, ['c0', 'c1', 'c2']),
    (['cluster'], {}, ['c2', 'c0', 'c3', 'c1']),
    (['class', 'cluster'], {'class': {'A': ['c0', 'c1'], 'B': ['c2']}}, None),
    (['class', 'cluster'], {'class': {'A': ['c0', 'c1'], 'B': ['c2', 'c3']}}, None),
    (['class', 'cluster'], {'class': {'B': ['c3'], 'A': ['c1', 'c0', 'c2']}}, None),
    (['class', 'cluster'], {'class': {'A': ['c0', 'c1', 'c2', 'c3']}}, None),          # single top node
    (['class', 'subclass', 'cluster'], {'class': {'A': ['s0', 's1'], 'B': ['s2']},
                                        'subclass': {'s0': ['c0', 'c1'], 's1': ['c2'], 's2': ['c3']}}, None),
    (['class', 'subclass', 'cluster'], {'class': {'A': ['s0'], 'B': ['s1']},
                                        'subclass': {'s0': ['c0', 'c1'], 's1': ['c2', 'c3']}}, None),
]


def make_case(seed):
    rng = random.Random(seed)
    hierarchy, upper, flat = rng.choice(TREES)
    data = {'hierarchy': list(hierarchy)}
    for lvl, d in upper.items():
        data[lvl] = {k: list(v) for k, v in d.items()}
    if flat is not None:
        leaves = list(flat)
    else:
        leaves = [c for v in upper[hierarchy[-2]].values() for c in v]
    data[hierarchy[-1]] = {lf: [] for lf in leaves}
    n_genes = rng.randint(2, 6)
    genes = [f'g{i}' for i in range(n_genes)]
    srt = sorted(leaves)
    pairs = list(itertools.combinations(srt, 2))
    density = rng.choice([0.15, 0.4, 0.7, 0.95])
    up = np.zeros((len(pairs), n_genes), dtype=bool)
    down = np.zeros((len(pairs), n_genes), dtype=bool)
    for p in range(len(pairs)):
        kind = rng.choice(['none', 'rand', 'rand', 'rand', 'only_up', 'only_down', 'full'])
        for g in range(n_genes):
            if kind == 'none':
                continue
            if kind == 'full' or rng.random() < density:
                d = rng.random() < 0.5
                if kind == 'only_up':
                    d = True
                if kind == 'only_down':
                    d = False
                (up if d else down)[p, g] = True
    # the package's transposition dies on an entirely empty table (finding D-2): keep one entry each
    if not up.any():
        up[rng.randrange(len(pairs)), 0] = True
        down[:, 0] &= ~up[:, 0]
    if not down.any():
        g = n_genes - 1
        p = rng.randrange(len(pairs))
        down[p, g] = True
        up[p, g] = False
        if not up.any():
            up[p, 0] = True
            down[p, 0] = False
    k = rng.randint(1, n_genes)
    query = sorted(rng.sample(genes, k))
    extra = ['q_only_1', 'q_only_2'][:rng.randint(0, 2)]
    query = query + extra
    rng.shuffle(query)
    n_per = rng.choice([1, 1, 2, 3])
    parents = [None] + [(lvl, node) for lvl in hierarchy[:-1] for node in data[lvl]]
    override = None
    if rng.random() < 0.35 and len(parents) > 1:
        override = {rng.choice(parents): rng.choice([1, 2, 4])}
    return dict(seed=seed, tree=data, leaves=leaves, genes=genes, pairs=pairs, up=up, down=down,
                query=query, n_per=n_per, override=override)


def describe(case):
    return dict(seed=case['seed'], tree={k: v for k, v in case['tree'].items() if k != case['tree']['hierarchy'][-1]},
                leaves=sorted(case['leaves']), genes=case['genes'], query=case['query'], n_per=case['n_per'],
                override={str(k): v for k, v in (case['override'] or {}).items()},
                up=case['up'].astype(int).tolist(), down=case['down'].astype(int).tolist())


def csr(table):
    indptr = [0]
    indices = []
    for row in table:
        indices += [int(i) for i in np.where(row)[0]]
        indptr.append(len(indices))
    return np.array(indptr, dtype=np.int64), np.array(indices, dtype=np.int64)


def write_marker_file(path, case, workdir):
    import h5py
    from cell_type_mapper.diff_exp.markers import add_sparse_by_gene_markers_to_file
    leaf_level = case['tree']['hierarchy'][-1]
    lookup = {}
    for i, (a, b) in enumerate(case['pairs']):
        lookup.setdefault(a, {})[b] = i
    for lf in case['leaves']:
        lookup.setdefault(lf, {})
    with h5py.File(path, 'w') as f:
        f.create_dataset('gene_names', data=json.dumps(case['genes']).encode('utf-8'))
        f.create_dataset('pair_to_idx', data=json.dumps({leaf_level: lookup}).encode('utf-8'))
        f.create_dataset('n_pairs', data=len(case['pairs']))
        for d in ('up', 'down'):
            ptr, idx = csr(case[d])
            f.create_dataset(f'sparse_by_pair/{d}_pair_idx', data=ptr)
            f.create_dataset(f'sparse_by_pair/{d}_gene_idx', data=idx)
    add_sparse_by_gene_markers_to_file(h5_path=path, n_genes=len(case['genes']), max_gb=1,
                                       tmp_dir=workdir, n_processors=1)


def run_select(case, path, workdir, n_processors, behemoth_cutoff):
    from cell_type_mapper.taxonomy.taxonomy_tree import TaxonomyTree
    from cell_type_mapper.marker_selection.selection_pipeline import select_all_markers
    tree = TaxonomyTree(data=case['tree'])
    out, _log = select_all_markers(
        marker_cache_path=path, query_gene_names=list(case['query']), taxonomy_tree=tree,
        n_per_utility=case['n_per'], n_processors=n_processors, behemoth_cutoff=behemoth_cutoff,
        genes_at_a_time=1, n_per_utility_override=case['override'], tmp_dir=workdir)
    return tree, {k: list(v) for k, v in out.items()}


def check_selection(case, tree, result, fails, tag):
    pair_idx = {p: i for i, p in enumerate(case['pairs'])}
    gidx = {g: i for i, g in enumerate(case['genes'])}
    marks = case['up'] | case['down']
    qset = set(case['query'])
    parents = tree.all_parents
    if set(result.keys()) != set(parents):
        fails.append((f'{tag}: one entry per parent node', dict(got=[str(k) for k in result], want=[str(p) for p in parents])))
        return
    for parent in parents:
        sel = result[parent]
        relevant = [tuple(sorted((a, b))) for (_lvl, a, b) in tree.leaves_to_compare(parent_node=parent)]
        n = case['n_per']
        if case['override'] and parent in case['override']:
            n = case['override'][parent]
        where = dict(parent=str(parent), selected=sel, relevant=relevant, n_per_utility=n)
        if len(set(sel)) != len(sel):
            fails.append((f'{tag}: selected genes are free of duplicates', where))
        if not set(sel) <= qset:
            fails.append((f'{tag}: selected genes occur in the query', where))
        if not set(sel) <= set(gidx):
            fails.append((f'{tag}: selected genes are reference genes', where))
            continue
        if not relevant and sel:
            fails.append((f'{tag}: a parent with nothing to discriminate gets no marker', where))
        rows = [pair_idx[p] for p in relevant]
        for g in sel:
            if not any(marks[r, gidx[g]] for r in rows):
                fails.append((f'{tag}: every selected gene is a reference marker of at least one relevant pair',
                              dict(where, gene=g)))
        for p, r in zip(relevant, rows):
            available = sum(1 for g in case['genes'] if g in qset and marks[r, gidx[g]])
            chosen = sum(1 for g in sel if marks[r, gidx[g]])
            if chosen < min(2 * n, available):
                fails.append((f'{tag}: coverage of every relevant pair is at least min(2n, available in the query)',
                              dict(where, pair=p, chosen=chosen, available=available)))


def make_pairs256(seed):
    """a parent with exactly 256 leaf pairs to discriminate (two children with 16 leaves each): pair
    indices of its own table reach 255, the largest value of the narrowest integer type; the first and
    the last pair of the parent are marked by private genes only"""
    rng = random.Random(seed)
    a = [f'a{i:02d}' for i in range(16)]
    b = [f'b{i:02d}' for i in range(16)]
    z = [f'z{i}' for i in range(4)]
    data = {'hierarchy': ['class', 'subclass', 'cluster'],
            'class': {'A': ['s0', 's1'], 'B': ['s2']},
            'subclass': {'s0': list(a), 's1': list(b), 's2': list(z)}}
    leaves = a + b + z
    data['cluster'] = {lf: [] for lf in leaves}
    n_genes = 10
    genes = [f'g{i}' for i in range(n_genes)]
    pairs = list(itertools.combinations(sorted(leaves), 2))
    up = np.zeros((len(pairs), n_genes), dtype=bool)
    down = np.zeros((len(pairs), n_genes), dtype=bool)
    private = {('a00', 'b00'): (6, 7), ('a15', 'b15'): (8, 9)}
    for p, pr in enumerate(pairs):
        if pr in private:
            for g in private[pr]:
                up[p, g] = True
            continue
        for g in range(6):
            if rng.random() < 0.3:
                (up if rng.random() < 0.5 else down)[p, g] = True
    return dict(seed=f'pairs256-{seed}', tree=data, leaves=leaves, genes=genes, pairs=pairs, up=up, down=down,
                query=list(genes) + ['q_only_1'], n_per=3, override=None)


def one_case(seed):
    case = make_pairs256(int(seed[9:])) if isinstance(seed, str) and seed.startswith('pairs256-') else make_case(seed)
    fails, crashed = [], []
    n_sel = 0
    with scratch('verif_c12_') as wd, quiet(), no_stderr():
        path = wd / 'reference_markers.h5'
        try:
            write_marker_file(path, case, wd)
        except BaseException as e:   # noqa
            return dict(key=describe(case), failures=[], crashed=[], rejected=f"{type(e).__name__}: {e}", n_sel=0)
        base = None
        no_overlap = not (set(case['query']) & set(case['genes']))
        runs = [('1 worker', 1, 1000000), ('2 workers', 2, 1000000), ('behemoth threshold 0', 1, 0),
                ('behemoth threshold 1, 3 workers', 3, 1)]
        for tag, n_proc, cutoff in runs:
            try:
                tree, res = run_select(case, path, wd, n_proc, cutoff)
            except BaseException as e:   # noqa
                crashed.append((f'run completes ({tag})', f"{type(e).__name__}: {e}"))
                continue
            check_selection(case, tree, res, fails, tag)
            if base is None:
                base = res
                n_sel = sum(len(v) for v in res.values())
            elif {str(k): sorted(v) for k, v in res.items()} != {str(k): sorted(v) for k, v in base.items()}:
                fails.append(('selection independent of worker count and of the large-parent threshold',
                              dict(run=tag, first={str(k): v for k, v in base.items()},
                                   this={str(k): v for k, v in res.items()})))
    return dict(key=describe(case), failures=fails, crashed=crashed, rejected=None, n_sel=n_sel)


CLAUSES = [
    'selected genes are free of duplicates',
    'selected genes occur in the query and in the reference',
    'every selected gene is a reference marker of at least one relevant pair',
    'a parent with nothing to discriminate gets no marker',
    'coverage of every relevant pair >= min(2 * n_per_utility, markers of the pair available in the query)',
    'selection independent of worker count (1/2/3) and of the large-parent threshold (full vs down-sampled table)',
    'run completes (no exception escapes)',
]


CL_DROP = ("query marker selection with drop_level (entry point create_marker_gene_lookup_from_ref_list): the table has exactly "
           "one entry per parent of the taxonomy WITHOUT that level, and the entry of a parent whose children changed is "
           "selected for its new children (equal to the selection on a reference that never had the level)")


def row_drop_level(tier, seed):
    from bounded import fixture as fx
    import traceback
    from cell_type_mapper.type_assignment.marker_cache_v2 import create_marker_gene_lookup_from_ref_list
    from cell_type_mapper.diff_exp.markers import find_markers_for_all_taxonomy_pairs
    import h5py
    row = new_row('cell_type_mapper.type_assignment.marker_cache_v2.create_marker_gene_lookup_from_ref_list#drop_level',
                  'seeded-random', "shapes d3_bal, d3_chain (+ d3_reuse, d3_slash in thorough) x every droppable level", [CL_DROP])
    shapes = ['d3_bal', 'd3_chain'] + ([] if tier == 'quick' else ['d3_reuse', 'd3_slash', 'd2_bal'])
    try:
        with fx.scratch() as d:
            for i, shape in enumerate(shapes):
                world = fx.build_world(d, int(seed) + 40 + i, taxonomy=shape, n_query=6)
                genes = list(world.query_gene_names)
                for lv in world.hierarchy[:-1]:
                    row['cases'] += 1
                    args = dict(shape=shape, drop_level=lv, seed=int(seed) + 40 + i)
                    red = fx.reduced_world(world, drop_level=lv)
                    ref2 = os.path.join(red.workdir, 'reference_markers.h5')
                    with quiet():
                        from cell_type_mapper.taxonomy.taxonomy_tree import TaxonomyTree
                        find_markers_for_all_taxonomy_pairs(
                            precomputed_stats_path=red.precomputed_path, taxonomy_tree=TaxonomyTree(data=red.tree),
                            output_path=ref2, tmp_dir=os.path.join(red.workdir, 'tmp'), n_processors=1, max_gb=1,
                            n_valid=min(10, world.n_genes))
                        with h5py.File(ref2, 'a') as f:
                            if 'metadata' in f:
                                del f['metadata']
                            f.create_dataset('metadata', data=json.dumps({'precomputed_path': red.precomputed_path}).encode('utf-8'))
                        kw = dict(query_gene_names=genes, n_per_utility=3, n_per_utility_override=None, n_processors=1,
                                  behemoth_cutoff=5000000, tmp_dir=os.path.join(red.workdir, 'tmp'))
                        got = create_marker_gene_lookup_from_ref_list(
                            reference_marker_path_list=[world.reference_marker_path], drop_level=lv, **kw)
                        want = create_marker_gene_lookup_from_ref_list(
                            reference_marker_path_list=[ref2], drop_level=None, **kw)
                    got = {k: sorted(v) for k, v in got.items() if k not in ('metadata', 'log')}
                    want = {k: sorted(v) for k, v in want.items() if k not in ('metadata', 'log')}
                    row['accepted'] += 1
                    note_case(row, args)
                    if got != want:
                        diff = sorted(k for k in set(got) | set(want) if got.get(k) != want.get(k))
                        add_failure(row, CL_DROP, 'ensures', args,
                                    f"differs for {diff[:4]}: with drop_level { {k: got.get(k) for k in diff[:2]} }; on the "
                                    f"reference without the level { {k: want.get(k) for k in diff[:2]} }")
    except BaseException:   # noqa
        add_error(row, traceback.format_exc()[-1500:])
    return finish_row(row)


def run(tier='quick', seed=0, jobs=1):
    n = 50 if tier == 'quick' else 500
    row = new_row(FN, 'seeded-random end-to-end (real select_all_markers vs census from the generated tables)',
                  '<= 4 leaves (9 tree shapes incl. single-child parents), <= 6 genes, targets 1..3, per-parent '
                  'overrides, query subsets + non-reference genes, 1/2/3 workers, 3 large-parent thresholds; one 36-leaf case '
                  'whose parent has exactly 256 pairs',
                  CLAUSES)
    seeds = [f'pairs256-{seed}'] + [seed * 100003 + i for i in range(n)]
    for (st, res), s in zip(parallel_map(one_case, seeds, jobs=min(jobs, 4)), seeds):
        row['cases'] += 1
        if st != 'ok':
            add_error(row, res)
            continue
        if res['rejected']:
            continue
        row['accepted'] += 1
        if res['n_sel'] > 0:
            note_case(row, res['key'])
        for clause, observed in res['crashed']:
            add_failure(row, clause, 'unexpected-exception', res['key'], observed)
        for clause, observed in res['failures']:
            add_failure(row, clause, 'ensures', res['key'], observed)
    return [finish_row(row), row_drop_level(tier, seed)]


if __name__ == '__main__':
    import sys
    out = run(tier=sys.argv[1] if len(sys.argv) > 1 else 'quick', seed=0, jobs=4)
    for r in out:
        print(json.dumps({k: v for k, v in r.items() if k not in ('failures', 'clauses')}, indent=1, default=str)[:1500])
        for f in r['failures']:
            print('FAIL', f['clause'], '|', f['kind'], '|', f['observed'][:600])
            print('     ', f['args'][:600])
