"""C14 bounded stand-in: a failed worker fails the run; no partial result passes as success.

The real stage entry points are run on a tiny world (bounded.fixture) while ONE worker process of
the stage is made to fail.  Nothing under /repo is edited: the `multiprocessing` name in the
globals of the stage module is replaced (in the parent, for the duration of one call) by a shim
whose `Process(...)` counts dispatches and wraps the worker target; because the start method is
fork the wrapper runs in the child and injects the fault there:

    mode   raise            -> the worker raises (exit code 1)
           exit             -> os._exit(3)
           kill             -> os.kill(os.getpid(), SIGKILL)
    point  before / mid / after the real worker body ('mid' = at the n-th call of a function the
           worker calls, see MID_HOOKS; the fault fires in the child only)

For the mapping there is one schedule on top of the faults ('siblings-publish-at-cleanup'): with
2 cells per chunk the neighbours of the failing worker hold their finished chunk back until the
parent starts to remove the buffer directory and write it then (only worker timing is chosen).

Every case runs inside a process of our own (own session, time-out): a hang is a failure of the
clause "the call raises".  A marker file written by the child just before the fault proves that
the fault was delivered (otherwise the case is a harness error, not a pass).

This module also carries the machinery shared by bounded.c04 / c19 / c20: the world, the stage
table (run / accept / worker sites), the multiprocessing shim (faults and per-worker delays) and
the isolation helper.
"""
import contextlib
import hashlib
import importlib
import itertools
import json
import os
import pathlib
import pickle
import shutil
import signal
import sys
import tempfile
import time
import traceback

import numpy as np

from bounded import fixture as fx

PKG = 'cell_type_mapper'
SUCCESS_LINE = "MAPPING FROM SPECIFIED MARKERS RAN SUCCESSFULLY"

# 6 leaves -> 15 leaf pairs -> two 8-pair chunks in the marker / p-value stages; 4 selection workers
SPEC6 = {'hierarchy': ['class', 'subclass', 'cluster'],
         'class': {'A': ['s0', 's1'], 'B': ['s2']},
         'subclass': {'s0': ['c0', 'c1', 'c2'], 's1': ['c3', 'c4'], 's2': ['c5']}}

MODES = ('raise', 'exit', 'kill')
POINTS = ('before', 'mid', 'after')


# ------------------------------------------------------------------------------------------------
# world
# ------------------------------------------------------------------------------------------------

def make_world(root, seed, encoding='csr', with_extras=True, **kw):
    """fixture world (6 leaves, 30 genes, 20 query cells) + p-value mask, a sparse matrix file for the
    transposition stage and a query-marker cache for direct calls of the election"""
    import h5py
    import scipy.sparse as sp
    args = dict(n_genes=30, taxonomy=SPEC6, n_query=20, encoding=encoding, ref_encoding='csr',
                n_processors=2)
    args.update(kw)
    world = fx.build_world(root, seed, **args)
    if not with_extras:
        return world
    wdir = pathlib.Path(world.workdir)
    with fx.quiet():
        from cell_type_mapper.diff_exp.p_value_mask import create_p_value_mask_file
        world.p_mask_path = str(wdir / 'p_value_mask.h5')
        create_p_value_mask_file(precomputed_stats_path=world.precomputed_path,
                                 dst_path=world.p_mask_path, n_processors=2,
                                 tmp_dir=str(wdir / 'tmp'), n_per=8)
    # sparse input of the parallel transposition: CSR of the reference counts (every column slice
    # holds entries: D-3 is not what is being looked at here)
    X = sp.csr_matrix(np.asarray(world.reference_X))
    world.tr_input_path = str(wdir / 'sparse_input.h5')
    with h5py.File(world.tr_input_path, 'w') as dst:
        dst.create_dataset('indices', data=X.indices.astype(np.int64))
        dst.create_dataset('indptr', data=X.indptr.astype(np.int64))
        dst.create_dataset('data', data=X.data.astype(np.float32))
    world.tr_shape = tuple(int(x) for x in X.shape)
    # query-marker cache, as _run_mapping builds it, for direct calls of the election
    from cell_type_mapper.type_assignment.marker_cache_v2 import (
        create_marker_cache_from_specified_markers)
    world.marker_cache_path = str(wdir / 'query_marker_cache.h5')
    with fx.quiet():
        create_marker_cache_from_specified_markers(
            marker_lookup=dict(world.marker_lookup),
            reference_gene_names=list(world.reference_gene_names),
            query_gene_names=list(world.query_gene_names),
            output_cache_path=world.marker_cache_path, log=None, taxonomy_tree=tree_of(world),
            min_markers=1)
    return world


def tree_of(world):
    from cell_type_mapper.taxonomy.taxonomy_tree import TaxonomyTree
    return TaxonomyTree(data=world.tree)


# ------------------------------------------------------------------------------------------------
# stage table
# ------------------------------------------------------------------------------------------------

def _run_stats(world, out, scratch, nproc, **kw):
    from cell_type_mapper.diff_exp.precompute_from_anndata import precompute_summary_stats_from_h5ad
    path = os.path.join(out, 'precomputed_stats.h5')
    precompute_summary_stats_from_h5ad(
        data_path=world.reference_path, column_hierarchy=None, taxonomy_tree=tree_of(world),
        output_path=path, rows_at_a_time=kw.get('rows_at_a_time', 7), normalization='raw',
        tmp_dir=scratch, n_processors=nproc)
    return {'stats': path}


def _run_markers(world, out, scratch, nproc, **kw):
    from cell_type_mapper.diff_exp.markers import find_markers_for_all_taxonomy_pairs
    path = os.path.join(out, 'reference_markers.h5')
    find_markers_for_all_taxonomy_pairs(
        precomputed_stats_path=world.precomputed_path, taxonomy_tree=tree_of(world),
        output_path=path, tmp_dir=scratch, n_processors=nproc, max_gb=1, n_valid=10)
    return {'markers': path}


def _run_pmask(world, out, scratch, nproc, **kw):
    from cell_type_mapper.diff_exp.p_value_mask import create_p_value_mask_file
    path = os.path.join(out, 'p_value_mask.h5')
    create_p_value_mask_file(precomputed_stats_path=world.precomputed_path, dst_path=path,
                             n_processors=nproc, tmp_dir=scratch, n_per=8)
    return {'pmask': path}


def _run_pmarkers(world, out, scratch, nproc, **kw):
    from cell_type_mapper.diff_exp.p_value_markers import (
        find_markers_for_all_taxonomy_pairs_from_p_mask)
    path = os.path.join(out, 'reference_markers_from_mask.h5')
    find_markers_for_all_taxonomy_pairs_from_p_mask(
        precomputed_stats_path=world.precomputed_path, p_value_mask_path=world.p_mask_path,
        output_path=path, n_processors=nproc, tmp_dir=scratch, max_gb=1, n_valid=10)
    return {'markers': path}


def _run_selection(world, out, scratch, nproc, **kw):
    """what cli/query_markers.py does: lookup from the reference marker file, then the JSON"""
    from cell_type_mapper.type_assignment.marker_cache_v2 import (
        create_marker_gene_lookup_from_ref_list)
    path = os.path.join(out, 'query_markers.json')
    lookup = create_marker_gene_lookup_from_ref_list(
        reference_marker_path_list=[world.reference_marker_path],
        query_gene_names=list(world.query_gene_names), n_per_utility=world.n_per_utility,
        n_per_utility_override=None, n_processors=nproc, behemoth_cutoff=5000000,
        tmp_dir=scratch, drop_level=None)
    with open(path, 'w') as dst:
        dst.write(json.dumps(lookup, indent=2))
    return {'lookup': path}


def _run_transpose(world, out, scratch, nproc, **kw):
    from cell_type_mapper.utils.csc_to_csr_parallel import transpose_sparse_matrix_on_disk_v2
    path = os.path.join(out, 'transposed.h5')
    transpose_sparse_matrix_on_disk_v2(
        h5_path=world.tr_input_path, indices_tag='indices', indptr_tag='indptr', data_tag='data',
        indices_max=world.tr_shape[1], max_gb=1, output_path=path, tmp_dir=scratch,
        n_processors=nproc)
    return {'transposed': path}


def mapping_cfg(world, out, scratch, nproc, **kw):
    """config of run_mapping with every output under `out` and scratch = `scratch`"""
    over = dict(n_processors=nproc, chunk_size=7, bootstrap_iteration=10, tmp_dir=scratch)
    over.update({k: v for k, v in kw.items() if k not in ('csv', 'log', 'hdf5')})
    cfg = fx.mapping_config(world, **over)
    made = cfg['extended_result_dir']
    try:                                   # the fixture made a run dir of its own: not used
        shutil.rmtree(made, ignore_errors=True)
    except Exception:   # noqa
        pass
    cfg['extended_result_dir'] = str(out)
    cfg['extended_result_path'] = os.path.join(out, 'result.json')
    cfg['csv_result_path'] = os.path.join(out, 'result.csv') if kw.get('csv', True) else None
    cfg['hdf5_result_path'] = os.path.join(out, 'result.h5') if kw.get('hdf5', True) else None
    cfg['log_path'] = os.path.join(out, 'log.txt') if kw.get('log', True) else None
    return cfg


def call_run_mapping(cfg):
    from cell_type_mapper.cli.from_specified_markers import run_mapping
    import copy
    run_mapping(config=copy.deepcopy(cfg), output_path=cfg['extended_result_path'],
                log_path=cfg['log_path'], hdf5_output_path=cfg['hdf5_result_path'])


def _run_mapping_stage(world, out, scratch, nproc, **kw):
    cfg = mapping_cfg(world, out, scratch, nproc, **kw)
    call_run_mapping(cfg)
    return {'json': cfg['extended_result_path'], 'csv': cfg['csv_result_path'],
            'hdf5': cfg['hdf5_result_path'], 'log': cfg['log_path']}


def run_election_direct(world, nproc, scratch, results_output_path=None, chunk_size=7, rng_seed=77,
                        bootstrap_iteration=10):
    """election_runner.run_type_assignment_on_h5ad as _run_mapping calls it; with
    results_output_path=None the workers append to a Manager list in completion order"""
    from cell_type_mapper.type_assignment.election_runner import run_type_assignment_on_h5ad
    tree = tree_of(world)
    lookup = {lv: 0.6 for lv in tree.hierarchy[:-1]}
    lookup['None'] = 0.6
    return run_type_assignment_on_h5ad(
        query_h5ad_path=world.query_path, precomputed_stats_path=world.precomputed_path,
        marker_gene_cache_path=world.marker_cache_path, taxonomy_tree=tree, n_processors=nproc,
        chunk_size=chunk_size, bootstrap_factor_lookup=lookup,
        bootstrap_iteration=bootstrap_iteration, rng=np.random.default_rng(rng_seed),
        n_assignments=4, normalization='raw', tmp_dir=scratch, log=None, max_gb=1,
        results_output_path=results_output_path)


def _run_election(world, out, scratch, nproc, **kw):
    result = run_election_direct(world, nproc, scratch, results_output_path=None)
    path = os.path.join(out, 'assignments.json')
    with open(path, 'w') as dst:
        json.dump(result, dst, default=str)
    return {'assignments': path}


def _accept_assignments(path, world):
    if not os.path.exists(path):
        return False, 'absent'
    return True, 'assignments were returned to the caller'


# -- "would the next stage take this file as complete?" ------------------------------------------

def _accept_stats(path, world):
    if not os.path.exists(path):
        return False, 'absent'
    from cell_type_mapper.taxonomy.taxonomy_tree import TaxonomyTree
    from cell_type_mapper.diff_exp.score_utils import read_precomputed_stats
    try:
        tree = TaxonomyTree.from_precomputed_stats(path)            # reference markers, mapping
        read_precomputed_stats(precomputed_stats_path=path, taxonomy_tree=tree,
                               for_marker_selection=True)
        return True, 'taxonomy_tree + statistics readable'
    except Exception as e:   # noqa
        return False, f'{type(e).__name__}: {str(e)[:120]}'


def _accept_markers(path, world):
    if not os.path.exists(path):
        return False, 'absent'
    try:
        from cell_type_mapper.marker_selection.marker_array import MarkerGeneArray
        with fx.quiet():
            MarkerGeneArray.from_cache_path(cache_path=path,
                                            query_gene_names=list(world.query_gene_names))
        return True, 'MarkerGeneArray.from_cache_path accepts it'
    except Exception as e:   # noqa
        return False, f'{type(e).__name__}: {str(e)[:120]}'


def _accept_pmask(path, world):
    """what create_sparse_by_pair_marker_file_from_p_mask and its workers read"""
    if not os.path.exists(path):
        return False, 'absent'
    try:
        import h5py
        with h5py.File(path, 'r') as src:
            json.loads(src['gene_names'][()].decode('utf-8'))
            json.loads(src['pair_to_idx'][()].decode('utf-8'))
            n_pairs = int(src['n_pairs'][()])
            indptr = src['indptr'][()]
            n_idx = src['indices'].shape[0]
            n_dat = src['data'].shape[0]
        if len(indptr) != n_pairs + 1 or indptr[-1] != n_idx or n_idx != n_dat:
            return False, 'inconsistent arrays'
        return True, 'gene_names, pair_to_idx, n_pairs, indptr, indices, data present and consistent'
    except Exception as e:   # noqa
        return False, f'{type(e).__name__}: {str(e)[:120]}'


def _accept_lookup(path, world):
    if not os.path.exists(path):
        return False, 'absent'
    try:
        with open(path, 'rb') as src:
            lookup = json.load(src)
        if not isinstance(lookup, dict) or 'None' not in lookup:
            return False, "no 'None' entry"
        return True, 'JSON marker lookup with a root entry'
    except Exception as e:   # noqa
        return False, f'{type(e).__name__}: {str(e)[:120]}'


def _accept_transposed(path, world):
    if not os.path.exists(path):
        return False, 'absent'
    try:
        import h5py
        with h5py.File(path, 'r') as src:
            indptr = src['indptr'][()]
            n_idx = src['indices'].shape[0]
            n_dat = src['data'].shape[0]
        if len(indptr) != world.tr_shape[1] + 1 or indptr[-1] != n_idx or n_dat != n_idx:
            return False, 'inconsistent arrays'
        return True, 'indptr/indices/data present and consistent'
    except Exception as e:   # noqa
        return False, f'{type(e).__name__}: {str(e)[:120]}'


M = 'cell_type_mapper.'
STAGES = {
    'mapping': dict(
        function=M + 'cli.from_specified_markers.run_mapping',
        inner=M + 'type_assignment.election.run_type_assignment_on_h5ad_cpu',
        run=_run_mapping_stage, nproc=3, nprocs=(3, 2),
        sites=[(M + 'type_assignment.election', '_run_type_assignment_on_h5ad_worker')],
        mid=[(M + 'type_assignment.election', '_run_type_assignment', 2, 'after'),
             (M + 'type_assignment.election', 'save_results', 1, 'partial-write')],
        accept=None),
    'election': dict(                     # shared Manager list instead of per-chunk files
        function=M + 'type_assignment.election.run_type_assignment_on_h5ad_cpu',
        run=_run_election, nproc=3, nprocs=(3, 2),
        sites=[(M + 'type_assignment.election', '_run_type_assignment_on_h5ad_worker')],
        mid=[(M + 'type_assignment.election', '_run_type_assignment', 2, 'after'),
             (M + 'type_assignment.election', 'run_type_assignment', 1, 'after')],
        accept=('assignments', _accept_assignments)),
    'stats': dict(
        function=M + 'diff_exp.precompute_from_anndata.precompute_summary_stats_from_h5ad',
        run=_run_stats, nproc=3, nprocs=(3, 2),
        sites=[(M + 'diff_exp.precompute_from_anndata', '_process_chunk_spec')],
        mid=[(M + 'diff_exp.precompute_from_anndata', '_process_chunk', 1, 'after')],
        accept=('stats', _accept_stats)),
    'markers': dict(
        function=M + 'diff_exp.markers.find_markers_for_all_taxonomy_pairs',
        run=_run_markers, nproc=2, nprocs=(2, 1),
        sites=[(M + 'diff_exp.markers', '_find_markers_worker')],
        mid=[(M + 'diff_exp.markers', 'score_differential_genes', 2, 'after'),
             (M + 'diff_exp.markers', '_write_to_tmp_file', 1, 'after')],
        accept=('markers', _accept_markers)),
    'markers/transposition': dict(       # the transposition workers inside the marker stage
        function=M + 'diff_exp.markers.find_markers_for_all_taxonomy_pairs',
        run=_run_markers, nproc=2, nprocs=(2,),
        sites=[(M + 'utils.csc_to_csr_parallel', '_transpose_subset_of_indices')],
        mid=[(M + 'utils.csc_to_csr_parallel', 'transpose_sparse_matrix_on_disk', 1, 'after')],
        accept=('markers', _accept_markers)),
    'pmask': dict(
        function=M + 'diff_exp.p_value_mask.create_p_value_mask_file',
        run=_run_pmask, nproc=2, nprocs=(2, 1),
        sites=[(M + 'diff_exp.p_value_mask', '_p_values_worker')],
        mid=[(M + 'diff_exp.p_value_mask', 'diffexp_p_values_from_stats', 2, 'after')],
        accept=('pmask', _accept_pmask)),
    'pmarkers': dict(
        function=M + 'diff_exp.p_value_markers.find_markers_for_all_taxonomy_pairs_from_p_mask',
        run=_run_pmarkers, nproc=2, nprocs=(2, 1),
        sites=[(M + 'diff_exp.p_value_markers', '_find_markers_from_p_mask_worker')],
        mid=[(M + 'diff_exp.p_value_markers', '_get_validity_mask', 2, 'after'),
             (M + 'diff_exp.p_value_markers', '_write_to_tmp_file', 1, 'after')],
        accept=('markers', _accept_markers)),
    'selection': dict(
        function=M + 'marker_selection.selection_pipeline.select_all_markers',
        run=_run_selection, nproc=2, nprocs=(2, 3),
        sites=[(M + 'marker_selection.selection_pipeline', '_marker_selection_worker')],
        mid=[(M + 'marker_selection.selection_pipeline', 'select_marker_genes_v2', 1, 'after')],
        accept=('lookup', _accept_lookup)),
    'transposition': dict(
        function=M + 'utils.csc_to_csr_parallel.transpose_sparse_matrix_on_disk_v2',
        run=_run_transpose, nproc=3, nprocs=(3, 2),
        sites=[(M + 'utils.csc_to_csr_parallel', '_transpose_subset_of_indices')],
        mid=[(M + 'utils.csc_to_csr_parallel', 'transpose_sparse_matrix_on_disk', 1, 'after')],
        accept=('transposed', _accept_transposed)),
}
STAGE_ORDER = ['mapping', 'election', 'stats', 'markers', 'markers/transposition', 'pmask', 'pmarkers',
               'selection', 'transposition']


# ------------------------------------------------------------------------------------------------
# the multiprocessing shim: faults and delays per dispatched worker
# ------------------------------------------------------------------------------------------------

def _trigger(mode, marker):
    if marker:
        try:
            with open(marker, 'w') as f:
                f.write(f'{os.getpid()} {mode}\n')
                f.flush()
                os.fsync(f.fileno())
        except OSError:
            pass
    if mode == 'raise':
        raise RuntimeError('verif: injected worker failure')
    if mode == 'exit':
        os._exit(3)
    if mode == 'kill':
        os.kill(os.getpid(), signal.SIGKILL)
        time.sleep(30)
    raise ValueError(mode)


class _MidHook(object):
    """installed IN THE CHILD: replaces module.attr; fires the fault at the nth call"""

    def __init__(self, real, nth, when, mode, marker):
        self.real, self.nth, self.when, self.mode, self.marker = real, nth, when, mode, marker
        self.calls = 0

    def __call__(self, *a, **kw):
        self.calls += 1
        fire = (self.calls == self.nth)
        if fire and self.when == 'before':
            _trigger(self.mode, self.marker)
        if fire and self.when == 'partial-write':
            # the function writes one file (last positional / keyword argument is its path): leave
            # a truncated file behind, then die
            path = a[-1] if a else list(kw.values())[-1]
            self.real(*a, **kw)
            try:
                size = os.path.getsize(path)
                with open(path, 'r+b') as f:
                    f.truncate(max(1, size // 2))
            except OSError:
                pass
            _trigger(self.mode, self.marker)
        out = self.real(*a, **kw)
        if fire and self.when == 'after':
            _trigger(self.mode, self.marker)
        return out


class _PublishWhenCleanupStarts(object):
    """installed IN A SIBLING of the failing worker: replaces election.save_results.  The sibling
    holds its finished chunk back until a chunk file that was present in the buffer directory has
    been removed (= the parent has started to clean up after the failure), then publishes at once.
    Only the timing of a worker is chosen; parent code is untouched."""

    def __init__(self, real, timeout=4.0):
        self.real, self.timeout = real, timeout

    def __call__(self, result, path):
        d = os.path.dirname(str(path))
        t0 = time.time()
        seen = None
        try:
            while time.time() - t0 < self.timeout:
                if seen is None:
                    others = [n for n in os.listdir(d) if n.endswith('_assignment.json')]
                    if others:
                        seen = os.path.join(d, others[0])
                    else:
                        time.sleep(0.0005)
                elif not os.path.exists(seen):
                    os.close(os.open(str(path), os.O_CREAT | os.O_WRONLY))
                    break
        except OSError:
            pass
        return self.real(result, path)


class _WrappedTarget(object):
    def __init__(self, real, k, plan):
        self.real, self.k, self.plan = real, k, plan
        self.__name__ = getattr(real, '__name__', 'worker')

    def __call__(self, *a, **kw):
        plan = self.plan
        d = plan.get('delay_before', {}).get(self.k)
        if d:
            time.sleep(d)
        fault = plan.get('fault')
        mine = fault is not None and fault['k'] == self.k
        sib = plan.get('siblings_publish_at_cleanup')
        if sib and not mine and self.k in sib[2]:
            mod = importlib.import_module(sib[0])
            setattr(mod, sib[1], _PublishWhenCleanupStarts(getattr(mod, sib[1])))
        if mine and fault['point'] == 'before':
            _trigger(fault['mode'], plan.get('marker'))
        if mine and fault['point'] == 'mid':
            modname, attr, nth, when = fault['mid']
            mod = importlib.import_module(modname)
            setattr(mod, attr, _MidHook(getattr(mod, attr), nth, when, fault['mode'],
                                        plan.get('marker')))
        self.real(*a, **kw)
        if mine and fault['point'] == 'after':
            _trigger(fault['mode'], plan.get('marker'))
        if plan.get('trace_dir'):
            try:
                with open(os.path.join(plan['trace_dir'], f'{self.k}.done'), 'w') as f:
                    f.write(repr(time.time()))
            except OSError:
                pass
        d = plan.get('delay_after', {}).get(self.k)
        if d:
            time.sleep(d)


class _MPShim(object):
    """stands in for the `multiprocessing` module object inside ONE stage module"""

    def __init__(self, real, plan, worker_names, counter):
        self._real, self._plan, self._names, self._counter = real, plan, worker_names, counter

    def __getattr__(self, name):
        return getattr(self._real, name)

    def Process(self, *a, **kw):
        target = kw.get('target')
        if target is not None and getattr(target, '__name__', None) in self._names:
            k = self._counter[0]
            self._counter[0] += 1
            self._plan.setdefault('dispatched', []).append(k)
            kw['target'] = _WrappedTarget(target, k, self._plan)
        return self._real.Process(*a, **kw)


# -- fall-back for a stage module that no longer starts its workers through `multiprocessing.Process`
#    (e.g. a concurrent.futures pool): the worker function itself is replaced, by a picklable partial of a
#    module-level function; the worker index is the order in which the invocations start (a counter
#    directory shared through the file system)
_REAL_WORKERS = {}
_ACTIVE_PLAN = [None]


def _generic_target(modname, wname, *a, **kw):
    plan = _ACTIVE_PLAN[0] or {}
    real = _REAL_WORKERS[(modname, wname)]
    k = 0
    cdir = plan.get('_counter_dir')
    if cdir:
        while True:
            try:
                os.close(os.open(os.path.join(cdir, f'k_{k}'), os.O_CREAT | os.O_EXCL | os.O_WRONLY))
                break
            except FileExistsError:
                k += 1
    _WrappedTarget(real, k, plan)(*a, **kw)


@contextlib.contextmanager
def injected(plan):
    """plan: dict(sites=[(module, worker_name)], fault=dict(k, mode, point, mid)|None,
    delay_before={k: s}, delay_after={k: s}, marker=path).  Patches in the parent; always undone."""
    import multiprocessing
    if multiprocessing.get_start_method() != 'fork':
        raise RuntimeError('fault injection needs the fork start method')
    counter = [0]
    saved = []
    saved_fn = []
    try:
        by_mod = {}
        for modname, wname in plan.get('sites', []):
            by_mod.setdefault(modname, set()).add(wname)
        for modname, names in by_mod.items():
            mod = importlib.import_module(modname)
            for n in names:
                if not callable(getattr(mod, n, None)):
                    raise RuntimeError(f'{modname}.{n} is not a worker function any more')
            if not hasattr(mod, 'multiprocessing'):
                import functools
                import tempfile
                if '_counter_dir' not in plan:
                    plan['_counter_dir'] = tempfile.mkdtemp(prefix='verif_kctr_', dir='/tmp')
                _ACTIVE_PLAN[0] = plan
                for n in names:
                    _REAL_WORKERS[(modname, n)] = getattr(mod, n)
                    saved_fn.append((mod, n, getattr(mod, n)))
                    setattr(mod, n, functools.partial(_generic_target, modname, n))
                continue
            real = mod.multiprocessing
            if isinstance(real, _MPShim):
                real = real._real
            saved.append((mod, mod.multiprocessing))
            mod.multiprocessing = _MPShim(real, plan, names, counter)
        yield plan
    finally:
        for mod, old in reversed(saved):
            mod.multiprocessing = old
        for mod, n, fn in reversed(saved_fn):
            setattr(mod, n, fn)
        _ACTIVE_PLAN[0] = None
        if plan.get('_counter_dir'):
            try:
                plan['dispatched'] = plan.get('dispatched', []) + sorted(
                    int(x[2:]) for x in os.listdir(plan['_counter_dir']) if x.startswith('k_'))
            except OSError:
                pass
            shutil.rmtree(plan.pop('_counter_dir'), ignore_errors=True)


def fault_plan(stage, k, mode, point, mid_index=0, marker=None):
    st = STAGES[stage]
    fault = dict(k=k, mode=mode, point=point)
    if point == 'mid':
        fault['mid'] = st['mid'][mid_index % len(st['mid'])]
    return dict(sites=list(st['sites']), fault=fault, marker=marker)


# ------------------------------------------------------------------------------------------------
# isolation: run a function in a process of our own, with a time-out
# ------------------------------------------------------------------------------------------------

def _iso_child(fn, kwargs, res_path):
    try:
        os.setsid()
    except OSError:
        pass
    try:
        devnull = os.open(os.devnull, os.O_WRONLY)
        os.dup2(devnull, 1)
        os.dup2(devnull, 2)
    except OSError:
        pass
    try:
        import warnings
        warnings.simplefilter('ignore')
        out = ('ok', fn(**kwargs))
    except BaseException as e:   # noqa  harness problem
        out = ('harness-error', f'{type(e).__name__}: {e}\n{traceback.format_exc()[-1800:]}')
    try:
        with open(res_path + '.part', 'wb') as f:
            pickle.dump(out, f)
        os.replace(res_path + '.part', res_path)
    finally:
        # orphaned / blocked workers of a failed stage must not keep us alive
        try:
            os.killpg(0, signal.SIGKILL)
        except OSError:
            os._exit(0)


def run_isolated_many(fn, kwargs_list, jobs=1, timeout=90, workdir=None):
    """run fn(**kwargs) for every kwargs in separate processes (<= jobs at a time).
    Returns a list of ('ok', value) | ('harness-error', text) | ('hang', seconds) | ('died', code)."""
    import multiprocessing
    ctx = multiprocessing.get_context('fork')
    jobs = max(1, min(int(jobs or 1), 4))
    results = [None] * len(kwargs_list)
    pending = list(enumerate(kwargs_list))
    active = []
    own_dir = None
    if workdir is None:
        own_dir = workdir = tempfile.mkdtemp(prefix='verif_iso_', dir='/tmp')
    try:
        while pending or active:
            while pending and len(active) < jobs:
                i, kw = pending.pop(0)
                res_path = os.path.join(workdir, f'iso_{os.getpid()}_{i}_{time.time_ns()}.pkl')
                p = ctx.Process(target=_iso_child, args=(fn, kw, res_path))
                p.start()
                active.append((i, p, res_path, time.time()))
            still = []
            for i, p, res_path, t0 in active:
                if p.is_alive() and time.time() - t0 <= timeout:
                    still.append((i, p, res_path, t0))
                    continue
                if p.is_alive():
                    try:
                        os.killpg(p.pid, signal.SIGKILL)
                    except OSError:
                        pass
                    p.kill()
                    p.join(5)
                    results[i] = ('hang', round(time.time() - t0, 1))
                else:
                    p.join(1)
                    if os.path.exists(res_path):
                        with open(res_path, 'rb') as f:
                            results[i] = pickle.load(f)
                    else:
                        results[i] = ('died', p.exitcode)
                try:
                    os.unlink(res_path)
                except OSError:
                    pass
            active = still
            if active:
                time.sleep(0.02)
    finally:
        for i, p, res_path, t0 in active:
            try:
                os.killpg(p.pid, signal.SIGKILL)
            except OSError:
                pass
        if own_dir:
            shutil.rmtree(own_dir, ignore_errors=True)
    return results


# ------------------------------------------------------------------------------------------------
# helpers shared with c19 / c20 / c04
# ------------------------------------------------------------------------------------------------

def sha256(path):
    h = hashlib.sha256()
    with open(path, 'rb') as f:
        for block in iter(lambda: f.read(1 << 20), b''):
            h.update(block)
    return h.hexdigest()


def tree_listing(root):
    """sorted relative paths (files and directories) below root"""
    out = []
    root = str(root)
    for dp, dn, fn in os.walk(root):
        for n in dn + fn:
            out.append(os.path.relpath(os.path.join(dp, n), root))
    return sorted(out)


def fresh_dirs(base, tag):
    d = pathlib.Path(tempfile.mkdtemp(prefix=f'{tag}_', dir=str(base)))
    out, scratch = d / 'out', d / 'scratch'
    out.mkdir()
    scratch.mkdir()
    return str(out), str(scratch)


# ------------------------------------------------------------------------------------------------
# comparison of stage outputs (c04, c19)
# ------------------------------------------------------------------------------------------------

def _as_data(raw):
    """bytes / str dataset -> parsed JSON when it is JSON, else the string"""
    if isinstance(raw, (bytes, np.bytes_)):
        raw = raw.decode('utf-8', errors='replace')
    if isinstance(raw, str):
        try:
            return json.loads(raw)
        except ValueError:
            return raw
    return raw


def h5_diff(path_a, path_b, ignore=(), float_rtol=None, dtype_notes=None):
    """first difference between two HDF5 files: same groups / datasets, equal shapes, dtypes and
    values (byte strings compared as JSON data when they are JSON).  None when equal.
    float_rtol: compare floating point datasets to this relative tolerance instead of exactly.
    dtype_notes: when a list, a dtype difference is appended to it and the values are still compared
    (as numbers) instead of being returned as the difference."""
    import h5py

    def walk(g, prefix=''):
        out = {}
        for k in g.keys():
            name = prefix + k
            if isinstance(g[k], h5py.Group):
                out.update(walk(g[k], name + '/'))
            else:
                out[name] = g[k]
        return out
    with h5py.File(path_a, 'r') as fa, h5py.File(path_b, 'r') as fb:
        da, db = walk(fa), walk(fb)
        ka = {k for k in da if k not in ignore}
        kb = {k for k in db if k not in ignore}
        if ka != kb:
            return f'datasets differ: only in first {sorted(ka - kb)}, only in second {sorted(kb - ka)}'
        for k in sorted(ka):
            a, b = da[k][()], db[k][()]
            if isinstance(a, (bytes, np.bytes_, str)) or isinstance(b, (bytes, np.bytes_, str)):
                if _as_data(a) != _as_data(b):
                    return f'{k}: string / JSON content differs'
                continue
            a, b = np.asarray(a), np.asarray(b)
            if a.shape != b.shape:
                return f'{k}: shape {a.shape} != {b.shape}'
            if a.dtype != b.dtype:
                if dtype_notes is None:
                    return f'{k}: dtype {a.dtype} != {b.dtype}'
                dtype_notes.append(f'{k}: dtype {a.dtype} != {b.dtype}')
            if a.dtype.kind in 'SOU':
                if not np.array_equal(a, b):
                    return f'{k}: values differ'
                continue
            if float_rtol is not None and a.dtype.kind == 'f':
                if not np.allclose(a, b, rtol=float_rtol, atol=0.0, equal_nan=True):
                    return f'{k}: max abs difference {np.nanmax(np.abs(a - b))!r} beyond rtol {float_rtol}'
                continue
            if not np.array_equal(a, b, equal_nan=(a.dtype.kind == 'f')):
                bad = np.argwhere(np.atleast_1d(a != b))
                where = bad[0].tolist() if len(bad) else '?'
                return (f'{k}: values differ at {where}: {np.atleast_1d(a)[tuple(bad[0])]!r} vs '
                        f'{np.atleast_1d(b)[tuple(bad[0])]!r}' if len(bad) else f'{k}: values differ')
    return None


def json_file_diff(path_a, path_b, keys=None, drop=('metadata', 'log', 'config')):
    """first difference between two JSON files compared as data (dict key order is irrelevant)"""
    with open(path_a) as f:
        a = json.load(f)
    with open(path_b) as f:
        b = json.load(f)
    if isinstance(a, dict) and isinstance(b, dict):
        ka = [k for k in a if k not in drop and (keys is None or k in keys)]
        kb = [k for k in b if k not in drop and (keys is None or k in keys)]
        if sorted(ka) != sorted(kb):
            return f'keys {sorted(ka)} != {sorted(kb)}'
        for k in sorted(ka):
            if a[k] != b[k]:
                return f'{k!r} differs: ' + (fx.record_diff(a[k], b[k], tol=0) or 'unequal')
        return None
    return None if a == b else 'content differs'


def csv_diff(path_a, path_b):
    def body(p):
        with open(p) as f:
            return [ln for ln in f.read().splitlines() if not ln.startswith('#')]
    a, b = body(path_a), body(path_b)
    if a == b:
        return None
    for i, (x, y) in enumerate(zip(a, b)):
        if x != y:
            return f'line {i}: {x!r} != {y!r}'
    return f'{len(a)} lines != {len(b)} lines'


def outputs_diff(stage, out_a, out_b, float_rtol=None, dtype_notes=None):
    """first difference between the outputs two runs of `stage` left in directories out_a, out_b"""
    names = sorted(set(os.listdir(out_a)) | set(os.listdir(out_b)))
    for n in names:
        pa, pb = os.path.join(out_a, n), os.path.join(out_b, n)
        if os.path.isdir(pa) or os.path.isdir(pb):
            continue
        if not (os.path.exists(pa) and os.path.exists(pb)):
            return f'{n}: present in one run only'
        if n == 'log.txt':
            continue
        if n.endswith('.h5'):
            ignore = ('metadata',) if stage in ('mapping',) else ()
            d = h5_diff(pa, pb, ignore=ignore, float_rtol=float_rtol, dtype_notes=dtype_notes)
        elif n.endswith('.json'):
            d = json_file_diff(pa, pb)
        elif n.endswith('.csv'):
            d = csv_diff(pa, pb)
        else:
            d = None if sha256(pa) == sha256(pb) else 'bytes differ'
        if d:
            return f'{n}: {d}'
    return None


# ------------------------------------------------------------------------------------------------
# one C14 case (runs inside the isolated process)
# ------------------------------------------------------------------------------------------------

def stage_case(world, stage, base, fault=None, mid_index=0, nproc=None, schedule=None):
    """run `stage` with (or without) one injected fault; returns the observations"""
    st = STAGES[stage]
    nproc = nproc or st['nproc']
    out, scratch = fresh_dirs(base, stage.replace('/', '-'))
    marker = os.path.join(os.path.dirname(out), 'fault_fired')
    obs = dict(stage=stage, fault=fault, raised=None, outputs={}, out_dir=out, nproc=nproc)
    run_kw = {}
    if fault is None:
        plan = dict(sites=list(st['sites']), fault=None)
    else:
        plan = fault_plan(stage, fault['k'], fault['mode'], fault['point'], mid_index, marker)
        obs['mid'] = plan['fault'].get('mid')
        if schedule == 'siblings-publish-at-cleanup':
            # 2 cells per chunk -> 10 chunks; the workers dispatched next to the failing one hold
            # their chunk back until the parent starts removing the chunks written so far
            plan['siblings_publish_at_cleanup'] = (M + 'type_assignment.election', 'save_results',
                                                   (fault['k'] - 1, fault['k'] + 1))
            run_kw = dict(chunk_size=2)
    outputs = None
    with injected(plan):
        try:
            with fx.quiet():
                outputs = st['run'](world, out, scratch, nproc, **run_kw)
            obs['raised'] = None
        except Exception as e:   # noqa   what the property asks for
            obs['raised'] = f'{type(e).__name__}: {str(e)[:200]}'
    obs['dispatched'] = len(plan.get('dispatched', []))
    if fault is not None and not os.path.exists(marker):
        # the call came back before the chosen worker reached its crash point (it did not wait
        # for that worker): give the worker a moment, the verdict on the call stands
        t_wait = time.time()
        while time.time() - t_wait < 1.5 and not os.path.exists(marker):
            time.sleep(0.05)
        obs['fired_late'] = os.path.exists(marker)
    obs['fired'] = os.path.exists(marker)
    obs['out_listing'] = tree_listing(out)
    obs['scratch_listing'] = tree_listing(scratch)
    if stage == 'mapping':
        obs.update(_observe_mapping(out))
    else:
        key, accept = st['accept']
        # the requested output location is the only file the stage may create in `out`; whatever
        # is found there is shown to the reader of the next stage
        acc = []
        for n in sorted(os.listdir(out)):
            ok, why = accept(os.path.join(out, n), world)
            acc.append((n, ok, why))
        obs['accepted'] = acc
        if outputs is not None:
            obs['outputs'] = outputs
    return obs


def _observe_mapping(out):
    o = {}
    jp, cp, lp, hp = (os.path.join(out, n) for n in ('result.json', 'result.csv', 'log.txt',
                                                       'result.h5'))
    o['json_exists'] = os.path.exists(jp)
    o['json_keys'] = None
    o['json_log_success'] = None
    if o['json_exists']:
        try:
            with open(jp) as f:
                blob = json.load(f)
            o['json_keys'] = sorted(blob.keys())
            o['json_log_success'] = any(SUCCESS_LINE in ln for ln in blob.get('log', []))
            o['n_results'] = len(blob['results']) if 'results' in blob else None
        except Exception as e:   # noqa
            o['json_keys'] = f'unreadable: {type(e).__name__}'
    o['csv_exists'] = os.path.exists(cp)
    o['log_exists'] = os.path.exists(lp)
    o['log_success'] = None
    if o['log_exists']:
        with open(lp, errors='replace') as f:
            o['log_success'] = SUCCESS_LINE in f.read()
    o['hdf5_keys'] = None
    if os.path.exists(hp):
        try:
            import h5py
            with h5py.File(hp, 'r') as src:
                o['hdf5_keys'] = sorted(src.keys())
                meta = json.loads(src['metadata'][()].decode('utf-8'))
                o['hdf5_meta_has_results'] = 'results' in meta
        except Exception as e:   # noqa
            o['hdf5_keys'] = f'unreadable: {type(e).__name__}'
    return o


CL_RAISES = "a worker ends abnormally (raise / exit 3 / SIGKILL; before, mid-way, after its work) => the call raises"
CL_JSON = "mapping: the JSON written has no 'results'"
CL_CSV = "mapping: no CSV is written"
CL_SUCCESS = "mapping: neither the log file nor the JSON log has the line '" + SUCCESS_LINE + "'"
CL_LOG = "mapping: the log file is still written"
CL_HDF5 = "mapping: the HDF5 output holds only metadata"
CL_OUTPUT = "no file at the requested output location that the next stage accepts as complete"


def judge(row, stage, nproc, fault, mid_index, status, obs, schedule=None):
    """turn the observations of one faulty case into failures of `row`"""
    st = STAGES[stage]
    replay = dict(stage=stage, entry=st['function'], worker_site=st['sites'], fault=fault,
                  mid=(st['mid'][mid_index % len(st['mid'])]
                       if fault and fault['point'] == 'mid' else None),
                  n_processors=nproc, world='bounded.c14.make_world(root, seed[, encoding=, ref_encoding=])',
                  replay='bounded.c14.stage_case(world, stage, base, fault, mid_index, nproc, schedule)')
    if schedule:
        replay['schedule'] = (schedule + ': the other workers hold their finished chunk back until the '
                              'parent removes a chunk file from the buffer directory, then write theirs; '
                              'chunk_size=2 (10 chunks) '
                              '(bounded.c14._PublishWhenCleanupStarts); repeat the case: the outcome is a race')
    if status == 'hang':
        fx.add_failure(row, CL_RAISES, 'hang', replay, f'no return within {obs} s')
        return
    if status != 'ok':
        fx.add_error(row, f'{stage} {fault}: {status}: {obs}')
        return
    if not obs['fired']:
        fx.add_error(row, f'{stage} nproc={nproc} {fault}: the fault was not delivered (dispatched='
                          f'{obs["dispatched"]}, raised={obs["raised"]})')
        return
    row['accepted'] += 1
    fx.note_case(row, (stage, nproc, fault['k'], fault['mode'], fault['point'], mid_index, schedule), replay)
    if obs['raised'] is None:
        fx.add_failure(row, CL_RAISES, 'no-exception', replay, 'the call returned normally')
    if stage == 'mapping':
        if not obs['json_exists'] or not isinstance(obs['json_keys'], list):
            fx.add_failure(row, CL_LOG, 'json-missing', replay,
                           f"result.json: {obs['json_keys']}; log.txt written: {obs['log_exists']}; "
                           f"the call raised: {obs['raised']}")
        elif 'results' in obs['json_keys']:
            fx.add_failure(row, CL_JSON, 'results-present', replay,
                           f"keys={obs['json_keys']} n_results={obs.get('n_results')}")
        if obs['csv_exists']:
            fx.add_failure(row, CL_CSV, 'csv-written', replay, 'result.csv exists')
        if obs['log_success'] or obs['json_log_success']:
            fx.add_failure(row, CL_SUCCESS, 'success-line', replay,
                           f"log file: {obs['log_success']} json log: {obs['json_log_success']}")
        if not obs['log_exists']:
            fx.add_failure(row, CL_LOG, 'log-missing', replay, 'log.txt was not written')
        if obs['hdf5_keys'] is not None and (obs['hdf5_keys'] != ['metadata']
                                             or obs.get('hdf5_meta_has_results')):
            fx.add_failure(row, CL_HDF5, 'hdf5-results', replay, f"keys={obs['hdf5_keys']}")
    else:
        for name, ok, why in obs['accepted']:
            if ok:
                fx.add_failure(row, CL_OUTPUT, 'complete-looking-output', replay,
                               f'{name}: {why}; call raised: {obs["raised"]}')


def _case_entry(world, stage, base, fault, mid_index, nproc, schedule=None):
    return stage_case(world, stage, base, fault=fault, mid_index=mid_index, nproc=nproc,
                      schedule=schedule)


def enumerate_cases(tier, seed, n_workers):
    """n_workers: {(stage, nproc): number of workers dispatched in the fault-free run}"""
    rng = np.random.default_rng([int(seed), 14])
    cases = []
    for stage in STAGE_ORDER:
        st = STAGES[stage]
        variants = [np_ for np_ in st['nprocs'] if (stage, np_) in n_workers]
        if not variants:
            continue
        if tier == 'thorough':
            for np_ in variants:
                nw = n_workers[(stage, np_)]
                for k, mode, point in itertools.product(range(nw), MODES, POINTS):
                    mids = range(len(st['mid'])) if point == 'mid' else (0,)
                    for mi in mids:
                        cases.append((stage, np_, dict(k=int(k), mode=mode, point=point), mi, None))
            if stage == 'mapping' and (stage, 3) in n_workers:
                for rep in range(12):
                    cases.append((stage, 3, dict(k=5 + rep % 4, mode=MODES[rep % 3], point='after'), 0,
                                  'siblings-publish-at-cleanup'))
        else:
            # every stage x every (mode, crash point); worker index, variant, mid hook sampled
            for mode, point in itertools.product(MODES, POINTS):
                np_ = variants[int(rng.integers(0, len(variants)))]
                k = int(rng.integers(0, n_workers[(stage, np_)]))
                mi = int(rng.integers(0, len(st['mid']))) if point == 'mid' else 0
                cases.append((stage, np_, dict(k=k, mode=mode, point=point), mi, None))
            if stage == 'mapping' and (stage, 3) in n_workers:
                for rep in range(4):
                    cases.append((stage, 3, dict(k=6 + rep % 2, mode=MODES[rep % 3], point='after'), 0,
                                  'siblings-publish-at-cleanup'))
    return cases


def merge_rows(first, second, note):
    out = []
    for a, b in zip(first, second):
        r = dict(a)
        for k in ('cases', 'accepted', 'distinct'):
            r[k] = a.get(k, 0) + b.get(k, 0)
        r['failures'] = list(a.get('failures', [])) + list(b.get('failures', []))
        r['error'] = a.get('error') or b.get('error')
        if a.get('exhaustive') is not None:
            r['exhaustive'] = bool(a.get('exhaustive')) and bool(b.get('exhaustive'))
        r['bound'] = f"{a['bound']} || {note}: {b['bound'].split('; workers per n_processors', 1)[-1]}"
        out.append(r)
    return out


def run(tier='quick', seed=0, jobs=None):
    """quick: one world; thorough: the full enumeration on two worlds (seed; seed+1 with a CSC query
    and a dense reference)"""
    if tier != 'thorough':
        return _run_one(tier, seed, jobs, 50, {})
    first = _run_one(tier, seed, jobs, 220, {})
    second = _run_one(tier, seed + 1, jobs, 220, dict(encoding='csc', ref_encoding='dense'))
    return merge_rows(first, second, 'second world (CSC query, dense reference)')


def _run_one(tier, seed, jobs, budget, world_kw):
    t_start = time.time()
    jobs = max(1, min(int(jobs or 2), 3))
    rows = {}
    for stage in STAGE_ORDER:
        st = STAGES[stage]
        clauses = [CL_RAISES] + ([CL_JSON, CL_CSV, CL_SUCCESS, CL_LOG, CL_HDF5] if stage == 'mapping'
                                 else [CL_OUTPUT])
        bound = (f"tiny world (6 leaves, 30 genes, 36 reference / 20 query cells), n_processors in "
                 f"{list(st['nprocs'])}, every dispatched {st['sites'][0][1]} x "
                 f"{{raise, exit 3, SIGKILL}} x {{before, mid, after}}"
                 + (" (all)" if tier == 'thorough'
                    else " (all 9 mode x point pairs; worker index and n_processors seeded)"))
        rows[stage] = fx.new_row(st['function'] + (' [transposition workers]'
                                                   if stage == 'markers/transposition' else ''),
                                 'small-scope-exhaustive' if tier == 'thorough' else 'seeded-random',
                                 bound, clauses)
        if tier == 'thorough':
            rows[stage]['exhaustive'] = True
    root = tempfile.mkdtemp(prefix='verif_', dir='/tmp')
    try:
        try:
            world = make_world(root, seed, **world_kw)
        except BaseException as e:   # noqa
            for r in rows.values():
                fx.add_error(r, f'world could not be built: {type(e).__name__}: {e}\n'
                                f'{traceback.format_exc()[-1200:]}')
            return [fx.finish_row(r) for r in rows.values()]
        base = os.path.join(root, 'cases')
        os.makedirs(base)
        # baselines: without a fault every stage returns and its output is accepted (so neither the
        # acceptors nor the shim are what makes the faulty cases fail); they also tell how many
        # workers each (stage, n_processors) dispatches
        variants = [(s, np_) for s in STAGE_ORDER for np_ in STAGES[s]['nprocs']]
        kws = [dict(world=world, stage=s, base=base, fault=None, mid_index=0, nproc=np_)
               for s, np_ in variants]
        res = run_isolated_many(_case_entry, kws, jobs=jobs, timeout=120, workdir=root)
        n_workers = {}
        for (stage, np_), (status, obs) in zip(variants, res):
            row = rows[stage]
            if status != 'ok':
                fx.add_error(row, f'baseline (no fault, n_processors={np_}) {status}: {obs}')
                continue
            if obs['raised'] is not None:
                fx.add_error(row, f'baseline (no fault, n_processors={np_}) raised: {obs["raised"]}'
                                  ' -- the stage cannot be exercised on this world')
                continue
            if obs['dispatched'] < 1:
                fx.add_error(row, f'baseline n_processors={np_}: no worker was dispatched')
                continue
            if stage == 'mapping':
                good = (isinstance(obs['json_keys'], list) and 'results' in obs['json_keys']
                        and obs['csv_exists'] and obs['log_success'])
            else:
                good = any(ok for _, ok, _ in obs['accepted'])
            if not good:
                fx.add_error(row, f'baseline output not accepted: {obs.get("accepted") or obs}')
                continue
            n_workers[(stage, np_)] = obs['dispatched']
        for stage in STAGE_ORDER:
            rows[stage]['bound'] += '; workers per n_processors: ' + json.dumps(
                {str(np_): n for (s, np_), n in n_workers.items() if s == stage})
        cases = enumerate_cases(tier, seed, n_workers)
        kws = [dict(world=world, stage=s, base=base, fault=f, mid_index=mi, nproc=np_, schedule=sch)
               for s, np_, f, mi, sch in cases]
        # run in slices so that the wall budget can stop the enumeration cleanly
        done = 0
        step = max(jobs * 4, 8)
        while done < len(kws):
            if time.time() - t_start > budget:
                for s, np_, f, mi, sch in cases[done:]:
                    rows[s]['_skipped'] = rows[s].get('_skipped', 0) + 1
                break
            part = run_isolated_many(_case_entry, kws[done:done + step], jobs=jobs, timeout=60,
                                     workdir=root)
            for (s, np_, f, mi, sch), (status, obs) in zip(cases[done:done + step], part):
                rows[s]['cases'] += 1
                judge(rows[s], s, np_, f, mi, status, obs, sch)
            done += step
            shutil.rmtree(base, ignore_errors=True)
            os.makedirs(base, exist_ok=True)
    finally:
        shutil.rmtree(root, ignore_errors=True)
    out = []
    for stage in STAGE_ORDER:
        r = rows[stage]
        sk = r.pop('_skipped', 0)
        if sk:
            r['exhaustive'] = False
            r['bound'] += f' -- {sk} cases not run (wall budget)'
        out.append(fx.finish_row(r))
    return out


def _main(mod_run):
    tier = sys.argv[1] if len(sys.argv) > 1 else 'quick'
    t0 = time.time()
    rr = mod_run(tier, int(os.environ.get('VERIF_SEED', '0') or 0), 2)
    for r in rr:
        print(json.dumps({k: r.get(k) for k in ('function', 'form', 'cases', 'accepted', 'distinct',
                                                'failures', 'error')}, default=str)[:4000])
    print('rows', len(rr), 'cases', sum(r['cases'] for r in rr), 'failures',
          sum(len(r['failures']) for r in rr), 'errors', sum(1 for r in rr if r.get('error')),
          'wall', round(time.time() - t0, 1))


if __name__ == '__main__':
    _main(run)
