"""C02 bounded stand-in: votes recomputed directly.

Three rows, all executing the REAL functions:
  A  election.tally_votes on tiny in-memory matrices, with a recording proxy around a seeded numpy
     Generator (every rng.choice draw is captured; the same seed replays the same sequence);
  B  election.choose_node on the same kind of input with repeated reference types (aggregation),
     several n_assignments;
  C  election.run_type_assignment as it runs inside the real pipeline (run_mapping on a tiny world,
     real worker processes): a trace of each node visit (ordered gene names of the node's marker
     matrix, reference leaves/types) and of each bootstrap draw is collected by wrapping
     assemble_query_data / tally_votes / the worker entry from OUTSIDE the package (fork inherits
     the wrappers; the repo is not modified).  Every cell's record is then recomputed from the
     INPUT FILES (reference h5ad, query h5ad, marker JSON) with an independent Pearson formula over
     the drawn gene subsets.
Ties (top two correlations within 1e-9 in some iteration) are excluded from equality clauses.
"""
import json
import os
import traceback

import numpy as np

from bounded import fixture as fx
from bounded import c01

F_TALLY = 'cell_type_mapper.type_assignment.election.tally_votes'
F_CHOOSE = 'cell_type_mapper.type_assignment.election.choose_node'
F_RTA = 'cell_type_mapper.type_assignment.election.run_type_assignment'

CL_SUBSET = ("each bootstrap iteration draws a duplicate-free subset of [0,n) of size max(1, round_half_even(factor*n)); "
             "one draw per iteration")
CL_REPLAY = "the same seed replays the same sequence of rng.choice draws"
CL_VOTES = "votes[i,j] = number of iterations whose Pearson-nearest reference row (over the drawn columns) for query row i is j"
CL_ROWSUM = "every row of votes sums to the iteration count"
CL_CORRSUM = "corr_sum[i,j] = sum of the winning correlations of the iterations that voted j (1e-9)"

CL_WINNER = "assignment is a type with the most (aggregated) votes"
CL_PROB = "bootstrapping probability = winner's votes / iterations"
CL_AVG = "average correlation = mean winning correlation over the iterations that voted for the winner (1e-9)"
CL_RUN = ("runners-up = the remaining types in order of non-increasing votes, truncated to n_assignments-1; flag = votes>0; "
          "each listed name carries its own vote share and mean winning correlation")

CL_GENES = "the node's marker matrix holds exactly the usable genes of the marker table for that node, same order in query and reference"
CL_LEAVES = "reference rows at a node = the sorted leaves below the node (reduced tree); reference_types[k] = the child owning leaf k"
CL_CELL = ("recomputed from the input files over the drawn subsets: assignment, bootstrapping_probability, avg_correlation, "
           "runner-up names / probabilities / correlations of every cell at every level with a choice")
CL_ROUTE = "a cell is voted on exactly at the nodes on its own assigned path (one visit per node per chunk)"

TIE = 1e-9


# --------------------------------------------------------------------------------------------
# oracle
# --------------------------------------------------------------------------------------------

def pearson(R, Q):
    """(n_ref, n_query) Pearson correlation, product-moment formula; 0 when a row is constant"""
    R = np.asarray(R, dtype=float)
    Q = np.asarray(Q, dtype=float)
    k = R.shape[1]
    out = np.zeros((R.shape[0], Q.shape[0]))
    for a in range(R.shape[0]):
        x = R[a]
        sx = x.std()
        for b in range(Q.shape[0]):
            y = Q[b]
            sy = y.std()
            if k == 0 or np.all(x == x[0]) or np.all(y == y[0]) or sx == 0 or sy == 0:
                out[a, b] = 0.0
            else:
                out[a, b] = ((x * y).mean() - x.mean() * y.mean()) / (sx * sy)
    return out


def expected_n_bootstrap(factor, n):
    if n == 0:
        return 0
    return max(1, int(round(float(factor) * n)))     # python round = half-even, like np.round


class RecordingRNG(object):
    """proxy around a numpy Generator recording every .choice() result"""

    def __init__(self, rng):
        self._rng = rng
        self.draws = []

    def choice(self, *a, **kw):
        r = self._rng.choice(*a, **kw)
        self.draws.append(np.array(r).copy())
        return r

    def __getattr__(self, name):
        return getattr(self._rng, name)


def oracle_tally(query, ref, draws):
    """-> votes, corr_sum, tie mask per query row (True when some iteration was a near-tie)"""
    nq, nr = query.shape[0], ref.shape[0]
    votes = np.zeros((nq, nr), dtype=int)
    csum = np.zeros((nq, nr))
    tie = np.zeros(nq, dtype=bool)
    for d in draws:
        d = np.asarray(d, dtype=int)
        c = pearson(ref[:, d], query[:, d])
        for q in range(nq):
            col = c[:, q]
            order = np.argsort(-col, kind='stable')
            if nr > 1 and col[order[0]] - col[order[1]] < TIE:
                tie[q] = True
            votes[q, order[0]] += 1
            csum[q, order[0]] += col[order[0]]
    return votes, csum, tie


def check_draws(draws, n, factor, iterations):
    want = expected_n_bootstrap(factor, n)
    if len(draws) != iterations:
        return f"{len(draws)} draws for {iterations} iterations"
    for k, d in enumerate(draws):
        d = np.asarray(d).ravel()
        if len(d) != want or len(set(d.tolist())) != len(d) or (len(d) and (d.min() < 0 or d.max() >= n)):
            return f"iteration {k}: subset {d.tolist()} for n={n}, factor={factor} (expected size {want}, duplicate-free, in [0,{n}))"
    return None


# --------------------------------------------------------------------------------------------
# rows A and B: in-memory
# --------------------------------------------------------------------------------------------

def gen_inmem(rng):
    nq = int(rng.integers(1, 6))
    nr = int(rng.integers(2, 6))
    ng = int(rng.choice([1, 2, 3, 4, 5, 6, 8, 11]))
    q = rng.normal(0, 1, (nq, ng)).round(3)
    r = rng.normal(0, 1, (nr, ng)).round(3)
    style = int(rng.integers(0, 5))
    if style == 0 and nq > 1:
        q[0, :] = 0.0                      # constant query row
    if style == 1:
        q = (r[rng.integers(0, nr, nq)] * rng.uniform(0.5, 2) + rng.normal(0, .3, (nq, ng))).round(3)
    factor = float(rng.choice([0.01, 0.3, 0.5, 0.75, 0.9, 1.0, float(rng.uniform(0.02, 1.0))]))
    it = int(rng.choice([1, 2, 5, 13]))
    seed = int(rng.integers(0, 2 ** 31))
    return dict(query=q.tolist(), ref=r.tolist(), factor=factor, iterations=it, rng_seed=seed)


def run_inmem(tier, seed, row_a, row_b):
    from cell_type_mapper.type_assignment import election
    rng = np.random.default_rng([int(seed), 202])
    n = 150 if tier == 'quick' else 1500
    for _ in range(n):
        case = gen_inmem(rng)
        q = np.array(case['query'])
        r = np.array(case['ref'])
        # ---------------- A: tally_votes ----------------
        row_a['cases'] += 1
        try:
            rec = RecordingRNG(np.random.default_rng(case['rng_seed']))
            try:
                votes, csum = election.tally_votes(
                    query_gene_data=q.copy(), reference_gene_data=r.copy(), bootstrap_factor=case['factor'],
                    bootstrap_iteration=case['iterations'], rng=rec)
            except Exception as e:   # noqa
                fx.add_failure(row_a, CL_VOTES, 'raises', case, fx.package_error_text(e))
                continue
            row_a['accepted'] += 1
            fx.note_case(row_a, case)
            msg = check_draws(rec.draws, q.shape[1], case['factor'], case['iterations'])
            if msg:
                fx.add_failure(row_a, CL_SUBSET, 'ensures', case, msg)
            rec2 = RecordingRNG(np.random.default_rng(case['rng_seed']))
            election.tally_votes(query_gene_data=q.copy(), reference_gene_data=r.copy(),
                                 bootstrap_factor=case['factor'], bootstrap_iteration=case['iterations'], rng=rec2)
            if len(rec.draws) != len(rec2.draws) or any(
                    not np.array_equal(a, b) for a, b in zip(rec.draws, rec2.draws)):
                fx.add_failure(row_a, CL_REPLAY, 'ensures', case, 'second run with the same seed drew other subsets')
            votes = np.asarray(votes)
            if not np.all(votes.sum(axis=1) == case['iterations']):
                fx.add_failure(row_a, CL_ROWSUM, 'ensures', case, f"votes={votes.tolist()}")
            ev, ec, tie = oracle_tally(q, r, rec.draws)
            ok_rows = ~tie
            if not np.array_equal(votes[ok_rows], ev[ok_rows]):
                fx.add_failure(row_a, CL_VOTES, 'ensures', dict(case, draws=[d.tolist() for d in rec.draws]),
                               f"votes={votes.tolist()} expected={ev.tolist()} (rows with ties excluded: {tie.tolist()})")
            elif not np.allclose(np.asarray(csum)[ok_rows], ec[ok_rows], atol=1e-9, rtol=0):
                fx.add_failure(row_a, CL_CORRSUM, 'ensures', dict(case, draws=[d.tolist() for d in rec.draws]),
                               f"corr_sum={np.asarray(csum).tolist()} expected={ec.tolist()}")
        except Exception:   # noqa
            fx.add_error(row_a, traceback.format_exc()[-1500:])
        # ---------------- B: choose_node ----------------
        row_b['cases'] += 1
        try:
            nr = r.shape[0]
            names = ['t%d' % int(x) for x in rng.integers(0, max(2, nr - 1), nr)]
            if rng.random() < 0.3:
                names = ['u%d' % i for i in rng.permutation(nr)]
            n_assign = int(rng.choice([1, 2, 3, 10]))
            caseb = dict(case, reference_types=names, n_assignments=n_assign)
            rec = RecordingRNG(np.random.default_rng(case['rng_seed']))
            try:
                res, prob, avg, runners = election.choose_node(
                    query_gene_data=q.copy(), reference_gene_data=r.copy(), reference_types=list(names),
                    bootstrap_factor=case['factor'], bootstrap_iteration=case['iterations'], rng=rec,
                    n_assignments=n_assign)
            except Exception as e:   # noqa
                fx.add_failure(row_b, CL_WINNER, 'raises', caseb, fx.package_error_text(e))
                continue
            row_b['accepted'] += 1
            fx.note_case(row_b, caseb)
            ev, ec, tie = oracle_tally(q, r, rec.draws)
            for i in range(q.shape[0]):
                if tie[i]:
                    continue
                exp = aggregate(ev[i], ec[i], names)
                got = dict(assignment=str(res[i]), p=float(prob[i]), corr=float(avg[i]),
                           runners=[(str(t[0]), bool(t[1]), float(t[2]), float(t[3])) for t in runners[i]])
                for clause, obs in compare_choice(exp, got, case['iterations'], n_assign - 1, filtered=False):
                    fx.add_failure(row_b, clause, 'ensures', dict(caseb, row=i), obs)
        except Exception:   # noqa
            fx.add_error(row_b, traceback.format_exc()[-1500:])


def aggregate(votes_row, corr_row, types):
    """per-type votes and winning-correlation sums"""
    out = {}
    for v, c, t in zip(votes_row, corr_row, types):
        a = out.setdefault(t, [0, 0.0])
        a[0] += int(v)
        a[1] += float(c)
    return out


def compare_choice(exp, got, iterations, n_listed, filtered):
    """exp: type -> [votes, corr_sum];  got: assignment, p, corr, runners [(name, flag, corr, prob)].
    `filtered`: zero-vote runners-up have already been removed (pipeline output).  Tie-robust: the
    ORDER of equal vote counts is not prescribed."""
    bad = []
    counts = sorted((v[0] for v in exp.values()), reverse=True)
    top = counts[0]
    w = got['assignment']
    if w not in exp or exp[w][0] != top:
        bad.append((CL_WINNER, f"assignment {w!r} has {exp.get(w, [None])[0]} votes; votes by type "
                               f"{ {k: v[0] for k, v in exp.items()} }"))
        return bad
    if abs(got['p'] - top / iterations) > 1e-12:
        bad.append((CL_PROB, f"probability {got['p']!r}, winner has {top}/{iterations} votes"))
    if abs(got['corr'] - exp[w][1] / max(1, exp[w][0])) > 1e-9:
        bad.append((CL_AVG, f"avg_correlation {got['corr']!r}, recomputed {exp[w][1] / max(1, exp[w][0])!r}"))
    rest = counts[1:]
    if filtered:
        rest = [c for c in rest if c > 0]
    rest = rest[:max(0, n_listed)]
    run = got['runners']
    ok = len(run) == len(rest)
    names = [t[0] for t in run]
    ok = ok and len(set(names)) == len(names) and w not in names
    if ok:
        for (name, flag, corr, prob), cnt in zip(run, rest):
            if name not in exp or exp[name][0] != cnt or abs(prob - cnt / iterations) > 1e-12 or \
                    bool(flag) != (cnt > 0):
                ok = False
                break
            if cnt > 0 and abs(corr - exp[name][1] / cnt) > 1e-9:
                ok = False
                break
    if not ok:
        bad.append((CL_RUN, f"runners-up {run!r}; votes by type { {k: v[0] for k, v in exp.items()} }, mean winning "
                            f"correlation by type { {k: (v[1] / v[0] if v[0] else None) for k, v in exp.items()} }; "
                            f"at most {n_listed} listed"))
    return bad


# --------------------------------------------------------------------------------------------
# row C: traced pipeline runs, recomputed from the input files
# --------------------------------------------------------------------------------------------

class _Trace(object):
    """wrappers installed on the election module; children created by fork inherit them and write
    one json line per event to <dir>/trace_<pid>.jsonl"""

    def __init__(self, trace_dir):
        self.dir = str(trace_dir)
        self.saved = {}

    def _emit(self, obj):
        with open(os.path.join(self.dir, f'trace_{os.getpid()}.jsonl'), 'a') as f:
            f.write(json.dumps(obj) + '\n')

    def __enter__(self):
        from cell_type_mapper.type_assignment import election
        self.mod = election
        tr = self
        for name in ('_run_type_assignment_on_h5ad_worker', 'assemble_query_data', 'tally_votes'):
            self.saved[name] = getattr(election, name)
        real_worker = self.saved['_run_type_assignment_on_h5ad_worker']
        real_assemble = self.saved['assemble_query_data']
        real_tally = self.saved['tally_votes']

        def worker(*a, **kw):
            tr._emit(dict(ev='chunk', r0=int(kw.get('r0', -1)), r1=int(kw.get('r1', -1)),
                          names=[str(x) for x in kw.get('query_cell_names', [])]))
            return real_worker(*a, **kw)

        def assemble(*a, **kw):
            out = real_assemble(*a, **kw)
            pn = kw.get('parent_node')
            tr._emit(dict(ev='visit', parent=list(pn) if pn is not None else None,
                          q_genes=list(out['query_data'].gene_identifiers),
                          r_genes=list(out['reference_data'].gene_identifiers),
                          r_leaves=[str(x) for x in out['reference_data'].cell_identifiers],
                          r_types=[str(x) for x in out['reference_types']],
                          n_cells=int(out['query_data'].n_cells)))
            return out

        def tally(*a, **kw):
            rec = RecordingRNG(kw['rng'])
            kw = dict(kw, rng=rec)
            out = real_tally(*a, **kw)
            tr._emit(dict(ev='draws', factor=float(kw['bootstrap_factor']), iterations=int(kw['bootstrap_iteration']),
                          n_markers=int(kw['query_gene_data'].shape[1]),
                          draws=[np.asarray(d).astype(int).tolist() for d in rec.draws]))
            return out

        election._run_type_assignment_on_h5ad_worker = worker
        election.assemble_query_data = assemble
        election.tally_votes = tally
        return self

    def __exit__(self, *exc):
        for k, v in self.saved.items():
            setattr(self.mod, k, v)
        return False

    def read(self):
        chunks = []
        for fn in sorted(os.listdir(self.dir)):
            if not fn.startswith('trace_'):
                continue
            cur = None
            with open(os.path.join(self.dir, fn)) as f:
                for line in f:
                    ev = json.loads(line)
                    if ev['ev'] == 'chunk':
                        cur = dict(r0=ev['r0'], r1=ev['r1'], names=ev['names'], visits=[])
                        chunks.append(cur)
                    elif cur is None:
                        continue
                    elif ev['ev'] == 'visit':
                        cur['visits'].append(dict(ev, draws=None))
                    elif ev['ev'] == 'draws' and cur['visits']:
                        cur['visits'][-1].update(draws=ev['draws'], factor=ev['factor'],
                                                 iterations=ev['iterations'], n_markers=ev['n_markers'])
        return chunks


def _read_h5ad(path):
    import anndata
    a = anndata.read_h5ad(path)
    X = a.X
    if hasattr(X, 'toarray'):
        X = X.toarray()
    return np.asarray(X, dtype=float), [str(x) for x in a.obs.index], [str(x) for x in a.var.index]


def recompute_case(world, case, blob, chunks, ta):
    """-> (failures [(clause, observed)], n_checked cell-levels, n_ties)"""
    bad = []
    iterations = int(ta['bootstrap_iteration'])
    n_ru = int(ta['n_runners_up'])
    factor = float(ta['bootstrap_factor'])
    # ---- from the input files ----
    Xr, _, ref_genes = _read_h5ad(world.reference_path)
    Xq, q_ids, q_genes = _read_h5ad(world.query_path)
    Lr = fx.to_log2cpm(Xr)
    Lq = fx.to_log2cpm(Xq) if ta['normalization'] == 'raw' else Xq
    leaf_level = world.hierarchy[-1]
    profile = {lf: Lr[world.tree[leaf_level][lf], :].mean(axis=0) for lf in world.leaves}
    ref_col = {g: i for i, g in enumerate(ref_genes)}
    q_col = {g: i for i, g in enumerate(q_genes)}
    q_row = {c: i for i, c in enumerate(q_ids)}
    with open(world.marker_lookup_path) as f:
        lookup = {k: v for k, v in json.load(f).items() if k not in ('metadata', 'log')}
    if case.get('flatten'):
        u = set()
        for v in lookup.values():
            u |= set(v)
        lookup = {'None': sorted(u)}
    red = c01.reduced_spec(world, case)
    hr = red['hierarchy']
    tree_red = fx.tree_dict_from_spec(red, {lf: [] for lf in red[hr[-1]]})
    results = fx.by_cell_id(blob)
    n_checked = n_ties = 0
    seen_rows = set()
    for ch in chunks:
        by_node = {}
        for v in ch['visits']:
            key = tuple(v['parent']) if v['parent'] is not None else None
            if key in by_node:
                bad.append((CL_ROUTE, f"chunk {ch['r0']}:{ch['r1']}: node {key} visited twice"))
            by_node[key] = v
            pk = 'None' if key is None else f'{key[0]}/{key[1]}'
            usable = set(lookup.get(pk, [])) & set(q_genes) & set(ref_genes)
            if not usable and key is not None:
                # the table has nothing usable for this node (e.g. a single-child parent that gained
                # children through drop_level): the package falls back to ancestors' markers (that
                # rule is C08's); here only require the genes to come from the node's ancestors
                anc = set(lookup.get('None', []))
                node_, lv_ = key[1], key[0]
                stored_c2p = fx.child_to_parent(world.tree)
                hs = world.hierarchy
                for j in range(hs.index(lv_), 0, -1):
                    node_ = stored_c2p[hs[j]].get(node_)
                    anc |= set(lookup.get(f'{hs[j - 1]}/{node_}', []))
                anc &= set(q_genes) & set(ref_genes)
                if v['q_genes'] != v['r_genes'] or not set(v['q_genes']) or not set(v['q_genes']) <= anc:
                    bad.append((CL_GENES, f"node {pk} (no usable genes in the table; ancestor fallback): genes "
                                          f"{v['q_genes']} / {v['r_genes']}, ancestors' usable genes {sorted(anc)}"))
            elif v['q_genes'] != v['r_genes'] or set(v['q_genes']) != usable or len(set(v['q_genes'])) != len(v['q_genes']):
                bad.append((CL_GENES, f"node {pk}: query genes {v['q_genes']}, reference genes {v['r_genes']}, "
                                      f"usable genes of the table {sorted(usable)}"))
            want_leaves = fx.leaves_under(tree_red, key[0] if key else None, key[1] if key else None)
            cl = hr[0] if key is None else hr[hr.index(key[0]) + 1]
            owner = {}
            for child in fx.children_of(tree_red, key[0] if key else None, key[1] if key else None):
                for lf in fx.leaves_under(tree_red, cl, child):
                    owner[lf] = child
            if v['r_leaves'] != want_leaves or v['r_types'] != [owner.get(lf) for lf in v['r_leaves']]:
                bad.append((CL_LEAVES, f"node {pk}: reference rows {v['r_leaves']} types {v['r_types']}; leaves below "
                                       f"the node {want_leaves}"))
            if v['draws'] is None:
                bad.append((CL_SUBSET, f"node {pk}: no bootstrap draws recorded"))
                continue
            msg = check_draws(v['draws'], len(v['q_genes']), factor, iterations)
            if msg:
                bad.append((CL_SUBSET, f"node {pk}: {msg}"))
        used_nodes = set()
        for cid in ch['names']:
            if cid not in results or cid not in q_row:
                bad.append((CL_ROUTE, f"chunk {ch['r0']}:{ch['r1']} names a cell {cid!r} unknown to the query/results"))
                continue
            seen_rows.add(cid)
            rec = results[cid]
            node = None
            for k, lv in enumerate(hr):
                kids = fx.children_of(tree_red, node[0] if node else None, node[1] if node else None)
                if not isinstance(rec.get(lv), dict) or 'assignment' not in rec[lv]:
                    bad.append((CL_CELL, f"cell {cid}: record has no assignment at level {lv}"))
                    break
                if len(kids) > 1:
                    v = by_node.get(node)
                    if v is None or v['draws'] is None:
                        bad.append((CL_ROUTE, f"cell {cid}: no vote recorded at node {node} of its own path in chunk "
                                              f"{ch['r0']}:{ch['r1']} (visited: {list(by_node)})"))
                        break
                    used_nodes.add(node)
                    genes = v['r_genes']
                    if any(g not in q_col or g not in ref_col for g in genes):
                        break
                    leaves = fx.leaves_under(tree_red, node[0] if node else None, node[1] if node else None)
                    owner = {}
                    for child in kids:
                        for lf in fx.leaves_under(tree_red, lv, child):
                            owner[lf] = child
                    R = np.array([[profile[lf][ref_col[g]] for g in genes] for lf in leaves])
                    Q = np.array([[Lq[q_row[cid], q_col[g]] for g in genes]])
                    ev, ec, tie = oracle_tally(Q, R, v['draws'])
                    if tie[0]:
                        n_ties += 1
                    else:
                        n_checked += 1
                        exp = aggregate(ev[0], ec[0], [owner[lf] for lf in leaves])
                        a = rec[lv]
                        got = dict(assignment=a['assignment'], p=a['bootstrapping_probability'],
                                   corr=a['avg_correlation'],
                                   runners=[(n_, True, c_, p_) for n_, c_, p_ in zip(
                                       a.get('runner_up_assignment', []), a.get('runner_up_correlation', []),
                                       a.get('runner_up_probability', []))])
                        for clause, obs in compare_choice(exp, got, iterations, n_ru, filtered=True):
                            bad.append((CL_CELL if clause != CL_WINNER else CL_CELL,
                                        f"cell {cid} level {lv} (node {node}): {obs} [{clause[:60]}]"))
                node = (lv, rec[lv]['assignment'])
            if len(bad) > 10:
                break
        for key, v in by_node.items():
            if key not in used_nodes and v['n_cells'] > 0 and len(bad) < 10:
                bad.append((CL_ROUTE, f"chunk {ch['r0']}:{ch['r1']}: node {key} was voted on for {v['n_cells']} cells but no "
                                      f"cell of the chunk has it on its assigned path"))
    if seen_rows != set(q_ids):
        bad.append((CL_ROUTE, f"cells never dispatched to a worker: {sorted(set(q_ids) - seen_rows)[:5]}"))
    return bad, n_checked, n_ties


def _pipeline_task(task):
    out = []
    with fx.scratch() as d:
        try:
            world = fx.build_world(d, task['seed'], **task['world'])
        except BaseException as e:   # noqa
            return [dict(status='harness-error', error='world build: ' + fx.package_error_text(e) +
                         traceback.format_exc()[-800:])]
        for case in task['cases']:
            rec = dict(case=case, world_args=dict(seed=task['seed'], **task['world']))
            try:
                tdir = os.path.join(str(d), f'trace_{len(out)}')
                os.makedirs(tdir)
                cfg = fx.mapping_config(world, **case)
                with _Trace(tdir) as tr:
                    try:
                        blob, _ = fx.run_mapping_world(world, cfg)
                    except Exception as e:   # noqa
                        rec.update(status='raised' if fx.escaped_from_package(e) else 'harness-error',
                                   error=fx.package_error_text(e) + traceback.format_exc()[-600:])
                        out.append(rec)
                        continue
                chunks = tr.read()
                bad, n_checked, n_ties = recompute_case(world, case, blob, chunks, cfg['type_assignment'])
                rec.update(status='ok', bad=bad, n_checked=n_checked, n_ties=n_ties, n_chunks=len(chunks))
            except BaseException:   # noqa
                rec.update(status='harness-error', error=traceback.format_exc()[-1500:])
            out.append(rec)
    return out


def pipeline_tasks(tier, seed):
    rng = np.random.default_rng([int(seed), 404])
    quick = tier == 'quick'
    shapes = ['d2_bal', 'd3_bal', 'd3_chain', 'd1_four', 'd2_single_child', 'd3_mid_single', 'd3_reuse', 'd3_slash']
    encs = ['dense', 'csr', 'csc']
    tasks = []
    for i, shape in enumerate(shapes):
        h = fx.taxonomy_spec(shape)['hierarchy']
        factors = dict(bootstrap_factor=[0.05, 0.3, 0.6, 1.0], bootstrap_iteration=[1, 5, 12],
                       n_runners_up=[0, 2, 5], chunk_size=[5, 18], n_processors=[1, 2],
                       flatten=[False, True], drop_level=[None] + list(h[:-1]))
        cases = c01.covering_sample(factors, 8 if quick else 40, rng)
        tasks.append(dict(seed=int(seed) + i, cases=cases,
                          world=dict(taxonomy=shape, encoding=encs[(i + seed) % 3], n_query=12 if quick else 18,
                                     query_normalization='raw' if i % 3 else 'log2CPM')))
    return tasks


def run(tier='quick', seed=0, jobs=1):
    seed = int(seed or 0)
    row_a = fx.new_row(F_TALLY, 'seeded-random',
                       "query <= 5 x 11, reference <= 5 rows, factor in {0.01,0.3,0.5,0.75,0.9,1,random}, iterations "
                       "{1,2,5,13}; constant rows and near-copies of reference rows included",
                       [CL_SUBSET, CL_REPLAY, CL_VOTES, CL_ROWSUM, CL_CORRSUM])
    row_b = fx.new_row(F_CHOOSE, 'seeded-random',
                       "same inputs as tally_votes with reference_types drawn with repetition (aggregation) or distinct; "
                       "n_assignments in {1,2,3,10}", [CL_WINNER, CL_PROB, CL_AVG, CL_RUN])
    row_c = fx.new_row(F_RTA, 'seeded-random',
                       "traced run_mapping on 8 taxonomy shapes (depth 1-3, single-child parents, labels shared by an internal node and a leaf, node names with '/'), <= 18 query cells, <= 27 "
                       "genes in different column order in query and reference, raw and log2CPM input, dense/csr/csc; "
                       "factor {0.05,0.3,0.6,1}, iterations {1,5,12}, runners-up {0,2,5}, chunk {5,18}, workers {1,2}, "
                       "flatten / drop_level; every cell-level recomputed from the input files",
                       [CL_GENES, CL_LEAVES, CL_SUBSET, CL_ROUTE, CL_CELL])
    try:
        run_inmem(tier, seed, row_a, row_b)
    except BaseException:   # noqa
        fx.add_error(row_a, traceback.format_exc()[-2000:])
    try:
        ties = 0
        for status, val in fx.parallel_map(_pipeline_task, pipeline_tasks(tier, seed), jobs):
            if status != 'ok':
                fx.add_error(row_c, val)
                continue
            for rec in val:
                if rec['status'] == 'harness-error':
                    fx.add_error(row_c, rec['error'])
                    continue
                args = dict(build_world=rec['world_args'], mapping_config=rec['case'])
                if rec['status'] == 'raised':
                    row_c['cases'] += 1
                    continue           # exception-freedom is C01's clause
                row_c['cases'] += rec['n_checked'] + rec['n_ties']
                row_c['accepted'] += rec['n_checked']
                ties += rec['n_ties']
                for k in range(rec['n_checked']):
                    fx.note_case(row_c, (json.dumps(args, sort_keys=True, default=str), k), args)
                for clause, obs in rec['bad']:
                    fx.add_failure(row_c, clause, 'ensures', args, obs)
        row_c['bound'] += f"; cell-levels excluded as ties: {ties}"
        if row_c['accepted'] == 0 and row_c['error'] is None:
            fx.add_error(row_c, 'vacuity guard: no cell-level was recomputed')
    except BaseException:   # noqa
        fx.add_error(row_c, traceback.format_exc()[-2000:])
    return [fx.finish_row(row_a), fx.finish_row(row_b), fx.finish_row(row_c)]
