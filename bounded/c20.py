"""C20 bounded stand-in: cloud-safe outputs reveal no absolute path of the host.

Row 1 -- cli.from_specified_markers.run_mapping(cloud_safe=True) on a tiny world whose input, output
and scratch directories (and, in one layout, the files) carry punctuation next to which paths
appear in messages ( " ' ( ) [ ] , : = ).  Runs: success, and failure on a missing statistics
file, a statistics file that is not HDF5, a malformed marker file, a marker file without usable
genes, negative raw counts, and an injected worker failure (bounded.c14 shim) -- each with a
scratch directory and with tmp_dir=None.  Scanned: every string of 'config' and 'log' of the JSON
output and of the metadata of the HDF5 output, and the separate log file.  Clause: no string
contains the absolute path of the layout root, of the input / output / scratch directories or of
the installation directory of cell_type_mapper (hence no whitespace- / quote- / bracket-delimited
token does).

Row 2 -- utils.cloud_utils.sanitize_paths on message templates x layouts x adjacent punctuation
(S-8: a leading bracket, a `key=` or `scheme:` prefix defeat it).
"""
import itertools
import json
import os
import pathlib
import shutil
import tempfile
import time
import traceback

import numpy as np

from bounded import fixture as fx
from bounded import c14 as m

CL_RUN = ("cloud_safe run (success or failure): no string of JSON 'config', JSON 'log', HDF5 metadata "
          "'config'/'log' or the log file contains the absolute path of an involved host directory "
          "(inputs, outputs, scratch, layout root, installation of cell_type_mapper)")
CL_KEYS = "cloud_safe: 'config' has no 'tmp_dir' / 'extended_result_dir' entry"
CL_SAN = ("sanitize_paths(message): the result contains no absolute path of an existing host "
          "directory named in the message, whatever punctuation is adjacent to the path")

# directory names: (input dir, output dir, scratch dir, file-name decoration)
LAYOUTS = [
    ('plain', 'in', 'out', 'scratch', ''),
    ('commas-brackets', 'in,put[1]', 'out(put)', 'scr[atch],x', ''),
    ('quotes', "in'put", 'out"put', "scr'atch\"s", ''),
    ('key-value', 'in=put', 'out:put', 'k=v:scratch', ''),
    ('leading-trailing', '(input', 'output]', '[scratch),', ''),
    ('decorated-files', 'in.put', 'out,put', 'scratch', ',(v1)[a]=b'),
    # every name short, every absolute path longer than 255 characters (the limit of ONE name, not of a path)
    ('deep', '/'.join(['input_' + 'i' * 40] * 6), '/'.join(['output_' + 'o' * 40] * 6),
     '/'.join(['scratch_' + 's' * 40] * 6), ''),
]

SCENARIOS = ['success', 'missing statistics file', 'statistics file is not HDF5',
             'marker file is not JSON', 'marker file names no gene of the query',
             'negative raw counts', 'query file is not HDF5', 'CSV directory does not exist',
             'injected worker failure']


def installation_dirs():
    import cell_type_mapper
    pkg = pathlib.Path(cell_type_mapper.__file__).resolve().parent
    return [str(pkg), str(pkg.parent)]


def forbidden_prefixes(dirs):
    """the directories themselves, resolved forms, and their ancestors of depth >= 2"""
    out = set()
    for d in dirs:
        for form in {str(d), os.path.realpath(str(d)), os.path.abspath(str(d))}:
            p = pathlib.Path(form)
            while len(p.parts) > 2:            # ('/', 'tmp', 'verif_x', ...) -> stop above depth 2
                out.add(str(p))
                p = p.parent
    return sorted(out, key=len)


def strings_of(x, path='$'):
    if isinstance(x, str):
        yield path, x
    elif isinstance(x, dict):
        for k, v in x.items():
            yield path + '<key>', str(k)
            yield from strings_of(v, f'{path}.{k}')
    elif isinstance(x, (list, tuple)):
        for i, v in enumerate(x):
            yield from strings_of(v, f'{path}[{i}]')


def leaks(text, prefixes):
    """[(token, prefix)] for whitespace-delimited tokens of text containing a forbidden prefix"""
    out = []
    if not any(p in text for p in prefixes):
        return out
    for tok in text.split():
        for p in prefixes:
            if p in tok:
                out.append((tok, p))
                break
    if not out:                                  # prefix spans whitespace (cannot happen: no spaces)
        out.append((text[:200], [p for p in prefixes if p in text][0]))
    return out


# ------------------------------------------------------------------------------------------------
# row 1: runs
# ------------------------------------------------------------------------------------------------

def build_layout(world, root, layout, scenario):
    name, d_in, d_out, d_scr, deco = layout
    base = pathlib.Path(tempfile.mkdtemp(prefix='lay_', dir=root))
    din, dout, dscr = base / d_in, base / d_out, base / d_scr
    for d in (din, dout, dscr):
        d.mkdir(parents=True)
    q = din / f'query{deco}.h5ad'
    s = din / f'precomputed_stats{deco}.h5'
    k = din / f'query_markers{deco}.json'
    shutil.copy(world.query_path, q)
    shutil.copy(world.precomputed_path, s)
    shutil.copy(world.marker_lookup_path, k)
    if scenario == 'missing statistics file':
        s.unlink()
    elif scenario == 'statistics file is not HDF5':
        s.write_text('this is not an HDF5 file\n')
    elif scenario == 'marker file is not JSON':
        k.write_text('{"None": ["g00", ')
    elif scenario == 'marker file names no gene of the query':
        k.write_text(json.dumps({kk: ['no_such_gene_%d' % i for i in range(3)]
                                 for kk in world.marker_lookup}))
    elif scenario == 'negative raw counts':
        X = np.array(world.query_X, dtype=float)
        X[1, :] = -np.abs(X[1, :]) - 1.0
        X[3, 2] = -5.0
        fx._write_h5ad(q, X, world.query_cell_ids, world.query_gene_names, encoding='csr')
    elif scenario == 'query file is not HDF5':
        q.write_text('this is not an h5ad file\n')
    return dict(base=str(base), din=str(din), dout=str(dout), dscr=str(dscr),
                query=str(q), stats=str(s), markers=str(k))


def run_case(world, root, layout, scenario, use_tmp_dir, fault, cloud_safe=True):
    """inside an isolated process: one cloud_safe run; returns the leaks found"""
    lay = build_layout(world, root, layout, scenario)
    cfg = m.mapping_cfg(world, lay['dout'], lay['dscr'], 3, cloud_safe=cloud_safe,
                        query_path=lay['query'], precomputed_path=lay['stats'],
                        marker_lookup_path=lay['markers'])
    if not use_tmp_dir:
        cfg['tmp_dir'] = None
    if scenario == 'CSV directory does not exist':
        cfg['csv_result_path'] = os.path.join(lay['dout'], 'no_such_dir', 'result.csv')
    prefixes = forbidden_prefixes([lay['base'], lay['din'], lay['dout'], lay['dscr'], root]
                                  + installation_dirs())
    plan = dict(sites=[], fault=None)
    marker = os.path.join(lay['base'], 'fault_fired')
    if scenario == 'injected worker failure':
        plan = m.fault_plan('mapping', fault['k'], fault['mode'], fault['point'], 0, marker)
    os.chdir(lay['base'])
    raised = None
    with m.injected(plan):
        try:
            with fx.quiet():
                m.call_run_mapping(cfg)
        except Exception as e:   # noqa
            raised = f'{type(e).__name__}: {str(e)[:200]}'
    found = []
    sources = {}
    jp = cfg['extended_result_path']
    config_keys = None
    if os.path.exists(jp):
        with open(jp) as f:
            blob = json.load(f)
        sources['json.config'] = blob.get('config')
        sources['json.log'] = blob.get('log')
        config_keys = sorted(blob.get('config', {}).keys())
    hp = cfg['hdf5_result_path']
    if hp and os.path.exists(hp):
        import h5py
        with h5py.File(hp, 'r') as src:
            meta = json.loads(src['metadata'][()].decode('utf-8'))
        sources['hdf5.metadata.config'] = meta.get('config')
        sources['hdf5.metadata.log'] = meta.get('log')
    lp = cfg['log_path']
    if lp and os.path.exists(lp):
        with open(lp, errors='replace') as f:
            sources['log file'] = f.read().splitlines()
    n_strings = 0
    for src_name, content in sources.items():
        for where, text in strings_of(content):
            n_strings += 1
            for tok, pre in leaks(text, prefixes):
                found.append(dict(source=src_name, where=where, token=tok[:300], prefix=pre,
                                  line=text[:300]))
    return dict(raised=raised, found=found, n_strings=n_strings, sources=sorted(sources),
                config_keys=config_keys, fired=os.path.exists(marker),
                dirs={k: os.path.basename(v) for k, v in lay.items() if k in ('din', 'dout', 'dscr')},
                files=[os.path.basename(lay[k]) for k in ('query', 'stats', 'markers')])


def _entry(world, root, layout, scenario, use_tmp_dir, fault, cloud_safe=True):
    return run_case(world, root, layout, scenario, use_tmp_dir, fault, cloud_safe)


def run_row(tier, seed, jobs, deadline):
    row = fx.new_row(m.STAGES['mapping']['function'],
                     'small-scope-exhaustive' if tier == 'thorough' else 'seeded-random',
                     f"{len(LAYOUTS)} directory layouts (names with , ( ) [ ] ' \" = :) x {len(SCENARIOS)} "
                     "scenarios x {scratch dir given, tmp_dir=None}; tiny world (6 leaves, 30 genes, "
                     "20 query cells)" + (" (all)" if tier == 'thorough' else
                                          " (every scenario and every layout; pairs seeded)"),
                     [CL_RUN, CL_KEYS])
    if tier == 'thorough':
        row['exhaustive'] = True
    rng = np.random.default_rng([int(seed), 20])
    root = tempfile.mkdtemp(prefix='verif_', dir='/tmp')
    try:
        try:
            world = m.make_world(root, seed, with_extras=False)
        except BaseException as e:   # noqa
            fx.add_error(row, f'world could not be built: {type(e).__name__}: {e}\n'
                              f'{traceback.format_exc()[-1000:]}')
            return fx.finish_row(row)
        faults = [dict(k=k, mode=mo, point=pt) for k in range(3) for mo in m.MODES for pt in m.POINTS]
        cases = []
        if tier == 'thorough':
            for lay, sc, tmp in itertools.product(LAYOUTS, SCENARIOS, (True, False)):
                cases.append((lay, sc, tmp, faults[int(rng.integers(0, len(faults)))]))
        else:
            # a Latin-square style cover: every scenario meets >= 2 layouts, every layout >= 2 scenarios
            for i, sc in enumerate(SCENARIOS):
                for j in (0, 1, 2):
                    lay = LAYOUTS[(i + 2 * j + int(seed)) % len(LAYOUTS)]
                    cases.append((lay, sc, (i + j) % 2 == 0, faults[int(rng.integers(0, len(faults)))]))
        lroot = os.path.join(root, 'layouts')
        os.makedirs(lroot)
        kws = [dict(world=world, root=lroot, layout=lay, scenario=sc, use_tmp_dir=tmp,
                    fault=(f if sc == 'injected worker failure' else None)) for lay, sc, tmp, f in cases]
        # positive control of the scan: the same run with cloud_safe=False must show paths
        (status, obs), = m.run_isolated_many(_entry, [dict(
            world=world, root=lroot, layout=LAYOUTS[1], scenario='missing statistics file',
            use_tmp_dir=True, fault=None, cloud_safe=False)], jobs=1, timeout=90, workdir=root)
        if status != 'ok' or not obs['found']:
            fx.add_error(row, f'positive control: the scan found no path in a cloud_safe=False run '
                              f'({status}: {str(obs)[:300]})')
        done, step = 0, max(8, jobs * 4)
        while done < len(kws):
            if time.time() > deadline:
                row['bound'] += f' -- {len(kws) - done} cases not run (wall budget)'
                row['exhaustive'] = False
                break
            part = m.run_isolated_many(_entry, kws[done:done + step], jobs=jobs, timeout=90, workdir=root)
            for (lay, sc, tmp, f), (status, obs) in zip(cases[done:done + step], part):
                row['cases'] += 1
                replay = dict(entry='run_mapping(cloud_safe=True)', layout=dict(
                    name=lay[0], input_dir=lay[1], output_dir=lay[2], scratch_dir=lay[3],
                    file_decoration=lay[4]), scenario=sc, tmp_dir_given=tmp,
                    fault=(f if sc == 'injected worker failure' else None),
                    replay='bounded.c20.run_case(world, root, layout, scenario, use_tmp_dir, fault)')
                if status == 'hang':
                    fx.add_error(row, f'{lay[0]}/{sc}: no return within {obs} s')
                    continue
                if status != 'ok':
                    fx.add_error(row, f'{lay[0]}/{sc}: {status}: {obs}')
                    continue
                if sc == 'success' and obs['raised'] is not None:
                    fx.add_error(row, f'{lay[0]}/success raised: {obs["raised"]}')
                    continue
                if sc == 'injected worker failure' and not obs['fired']:
                    fx.add_error(row, f'{lay[0]}/{sc}: fault not delivered')
                    continue
                if sc != 'success' and obs['raised'] is None:
                    # the package accepted the input: the outputs are still scanned
                    row.setdefault('_accepted_invalid', set()).add(sc)
                if 'log file' not in obs['sources']:
                    fx.add_error(row, f'{lay[0]}/{sc}: outputs missing: {obs["sources"]}')
                    continue
                if 'json.log' not in obs['sources']:
                    # e.g. an unreadable query file: run_mapping's finally block fails before the
                    # JSON is written; only the log file can be scanned
                    row.setdefault('_no_json', set()).add(sc)
                row['accepted'] += 1
                fx.note_case(row, (lay[0], sc, tmp), replay)
                seen = set()
                for lk in obs['found']:
                    # one failure per (source, shape of the line)
                    shape = (lk['source'].split('.')[0] if lk['source'] != 'log file' else 'log file',
                             lk['line'][:40])
                    if shape in seen:
                        continue
                    seen.add(shape)
                    fx.add_failure(row, CL_RUN, 'absolute-path-in-' + lk['source'].replace(' ', '-'),
                                   replay, f"{lk['where']}: token {lk['token']!r} contains {lk['prefix']!r} "
                                           f"(run raised: {obs['raised']})")
                if obs['config_keys'] is not None and True:
                    bad = [k for k in ('tmp_dir', 'extended_result_dir') if k in obs['config_keys']]
                    if bad:
                        fx.add_failure(row, CL_KEYS, 'config-key', replay, f'config has {bad}')
            done += step
            shutil.rmtree(lroot, ignore_errors=True)
            os.makedirs(lroot, exist_ok=True)
    finally:
        shutil.rmtree(root, ignore_errors=True)
    nj = row.pop('_no_json', None)
    if nj:
        row['bound'] += f'; scenarios in which no JSON output was written (log file scanned only): {sorted(nj)}'
    acc = row.pop('_accepted_invalid', None)
    if acc:
        row['bound'] += f'; scenarios the package did not reject (outputs scanned all the same): {sorted(acc)}'
    return fx.finish_row(row)


# ------------------------------------------------------------------------------------------------
# row 2: sanitize_paths directly
# ------------------------------------------------------------------------------------------------

PRE = ['', '"', "'", '(', '[', ',', ':', '=', 'key=', 'path:', 'file://', '("', "['", '{', '<']
POST = ['', '"', "'", ')', ']', ',', ':', '.', ';', '",', "')", '],', '}', '>', '):']
TEMPLATES = ['{w}', 'reading {w}', '{w} is not a file', 'copied {w} to ../x.h5',
             'Unable to open file (unable to open file: name = {w}, errno = 2)',
             'File {w}, line 12, in run_mapping', 'paths {w} {w}', 'a\n{w}\nb', 'x\t{w}']


def sanitize_cases(root):
    """(kind of path, path) pairs inside one layout directory + the installation"""
    import cell_type_mapper
    out = []
    for name, d_in, d_out, d_scr, deco in LAYOUTS:
        base = pathlib.Path(tempfile.mkdtemp(prefix='san_', dir=root))
        d = base / d_in
        d.mkdir(parents=True)
        f = d / f'data{deco}.h5'
        f.write_text('x')
        out.append((name, 'existing file', str(f), str(base)))
        out.append((name, 'existing directory', str(d), str(base)))
        out.append((name, 'missing file in an existing directory', str(d / 'absent.h5'), str(base)))
        out.append((name, 'missing file two levels below an existing directory',
                    str(d / 'no_dir' / 'absent.h5'), str(base)))
    pkg = pathlib.Path(cell_type_mapper.__file__).resolve()
    out.append(('installation', 'module file of the package', str(pkg.parent / 'cli' / 'cli_log.py'),
                str(pkg.parent.parent)))
    out.append(('installation', 'package directory', str(pkg.parent), str(pkg.parent.parent)))
    return out


def sanitize_row(tier, seed):
    from cell_type_mapper.utils.cloud_utils import sanitize_paths
    row = fx.new_row('cell_type_mapper.utils.cloud_utils.sanitize_paths', 'small-scope-exhaustive',
                     f"{len(TEMPLATES)} message templates x {len(LAYOUTS)} layouts x 4 kinds of path (+2 "
                     f"installation paths) x {len(PRE)} leading x {len(POST)} trailing punctuation strings; "
                     "plus list / dict / nested / dict-key containers", [CL_SAN])
    row['exhaustive'] = True
    root = tempfile.mkdtemp(prefix='verif_', dir='/tmp')
    try:
        paths = sanitize_cases(root)
        classes = {}
        for (lname, kind, pth, base), tpl, pre, post in itertools.product(paths, TEMPLATES, PRE, POST):
            if tier == 'quick' and tpl not in TEMPLATES[:5] and lname not in ('plain', 'installation'):
                continue
            word = pre + pth + post
            msg = tpl.replace('{w}', word)
            row['cases'] += 1
            try:
                res = sanitize_paths(msg)
            except Exception as e:   # noqa
                fx.add_failure(row, CL_SAN, 'raises', dict(message=msg), f'{type(e).__name__}: {e}')
                continue
            row['accepted'] += 1
            fx.note_case(row, (lname, kind, tpl, pre, post), dict(message=msg))
            prefixes = forbidden_prefixes([base])
            if any(p in res for p in prefixes):
                if pre == '':
                    group = 'no-leading-punctuation'
                elif pre[0] in '([{<':
                    group = 'leading-bracket'
                elif pre in (',', ':', '='):
                    group = 'leading-separator'
                elif pre[-1] in '=:/':
                    group = 'key=-or-scheme:-prefix'
                else:
                    group = 'leading-' + pre
                c = classes.setdefault(group, dict(n=0, first=None, pres=set(), posts=set(), kinds=set(),
                                                   examples={}))
                c['n'] += 1
                c['pres'].add(pre)
                c['posts'].add(post)
                c['kinds'].add(kind)
                if pre not in c['examples'] or len(msg) < len(c['examples'][pre][0]):
                    c['examples'][pre] = (msg, res)
        for group, c in sorted(classes.items()):
            ex = {pre: dict(message=mr[0], returned=mr[1]) for pre, mr in sorted(c['examples'].items())}
            first = ex[sorted(ex)[0]]
            fx.add_failure(row, CL_SAN + ' [S-8]', 'path-survives-' + group,
                           dict(call='sanitize_paths(message)', message=first['message'],
                                other_inputs={k: v['message'] for k, v in ex.items()}),
                           f"returned {first['returned']!r}; {c['n']} inputs with leading {sorted(c['pres'])} "
                           f"keep the absolute path (trailing strings seen: {sorted(c['posts'])}; "
                           f"kinds of path: {sorted(c['kinds'])})")
        # containers
        base = paths[0][3]
        pth = paths[0][2]
        prefixes = forbidden_prefixes([base])
        # (tuples are outside the documented domain "a list, a dict, or a string": not tried)
        containers = [('list', ['a', pth]), ('nested', {'k': [{'j': pth}]}),
                      ('list-of-lists', [[pth], ['reading ' + pth]]), ('dict-key', {pth: 'v'})]
        for cname, val in containers:
            row['cases'] += 1
            try:
                res = sanitize_paths(val)
            except Exception as e:   # noqa
                fx.add_failure(row, CL_SAN, 'raises', dict(argument=repr(val)), f'{type(e).__name__}: {e}')
                continue
            row['accepted'] += 1
            fx.note_case(row, ('container', cname), dict(argument=repr(val)))
            flat = ' '.join(t for _, t in strings_of(res))
            if any(p in flat for p in prefixes):
                fx.add_failure(row, CL_SAN + (' [S-8]' if cname == 'dict-key' else ''),
                               f'path-survives-in-{cname}',
                               dict(call='sanitize_paths(argument)', argument=repr(val)), f'returned {res!r}')
    finally:
        shutil.rmtree(root, ignore_errors=True)
    return fx.finish_row(row)


def run(tier='quick', seed=0, jobs=None):
    t0 = time.time()
    jobs = max(1, min(int(jobs or 2), 3))
    rows = []
    try:
        rows.append(sanitize_row(tier, seed))
    except BaseException as e:   # noqa
        rows.append(dict(function='cell_type_mapper.utils.cloud_utils.sanitize_paths', cases=0, accepted=0,
                         distinct=0, failures=[], error=f'{type(e).__name__}: {e}\n'
                                                       f'{traceback.format_exc()[-1200:]}'))
    rows.insert(0, run_row(tier, seed, jobs, t0 + (48 if tier == 'quick' else 430)))
    return rows


if __name__ == '__main__':
    m._main(run)
