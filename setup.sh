#!/bin/bash
# builds /verif/.venv offline: python 3.12 overlay on /venv (repo deps) + z3/cvc5/deal/icontract/crosshair
set -e
HERE="$(cd "$(dirname "$0")" && pwd)"
cd "$HERE"
if [ -x .venv/bin/python ] && .venv/bin/python -c "import z3, cell_type_mapper" 2>/dev/null; then
  echo "venv ok"; exit 0
fi
rm -rf .venv
/venv/bin/python -m venv .venv
echo "import site; site.addsitedir('/venv/lib/python3.12/site-packages')" > .venv/lib/python3.12/site-packages/_overlay.pth
PIP_NO_INDEX=1 .venv/bin/pip install -q --no-index --find-links /opt/veriftools/wheels z3-solver cvc5 deal icontract crosshair-tool
.venv/bin/python -c "import z3, cell_type_mapper; print('venv built', z3.get_version_string())"
